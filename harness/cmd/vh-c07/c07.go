package main

// C07 — Get returns exactly the installed entries, payload-faithful, correctly filtered.
//
// Every case programs entries built by the REAL fluent builders through the REAL server (one
// negotiated primary session on a fake Modify stream, one operation per request followed by a
// barrier operation), interleaved with Get requests over every (instance selector, table)
// combination; at the end the harness issues Get(all, T) for T = ALL and the five tables and
// rebuilds a RIB from the Get(all, ALL) responses with rib.FromGetResponses.
//
// Model-free oracle: the harness remembers, from the server's own acknowledgements, which protobuf
// was last programmed for every (instance, kind, key); each Get must return exactly those entries of
// its scope, each tagged with its instance and proto.Equal (after sorting keyed lists and dropping
// empty containers) to what was programmed; Get(all, ALL) must be the disjoint union of the five
// per-table Gets; the rebuilt RIB's contents must equal the source RIB's contents.
//
// Correspondence: the same history, with entries and Get results as abstract payloads (field code,
// value code), is evaluated by Codec/Wire.v gcase_ok (Server/Inst.v strace + codec).

import (
	"encoding/json"
	"fmt"
	"os"
	"path/filepath"
	"sort"
	"strings"

	"verifharness/drv"

	"github.com/openconfig/gribigo/aft"
	"github.com/openconfig/gribigo/rib"
	"github.com/openconfig/gribigo/server"
	"github.com/openconfig/ygot/ygot"
	"google.golang.org/grpc/codes"
	"google.golang.org/grpc/status"
	"google.golang.org/protobuf/encoding/prototext"
	"google.golang.org/protobuf/proto"

	spb "github.com/openconfig/gribi/v1/proto/service"
)

var elecID = drv.U128{Hi: 0, Lo: 1}

type progOp struct {
	kind string // add replace del
	key  string
	want *spb.AFTEntry
}

type stepObs struct {
	resps []*spb.ModifyResponse
	end   *drv.End
	hang  string
	// get
	getOK    bool
	getCode  codes.Code
	getItems []*spb.AFTEntry
	// what was sent
	abs Abs
	bad bool
	id  uint64
}

type runRes struct {
	obs      []stepObs
	steps    []Step // the case's steps followed by the six closing Gets
	problems []string
	reget    []*spb.AFTEntry
	regetOK  bool
	final    []*spb.AFTEntry // Get(all, ALL) at the end
}

func txt(m proto.Message) string { return prototext.MarshalOptions{}.Format(m) }

func addProblem(l *[]string, p string) {
	for _, x := range *l {
		if x == p {
			return
		}
	}
	*l = append(*l, p)
}

// scopeOf tells which installed keys a request must return; ok = the request must succeed.
func scopeOf(q drv.GetSpec, known map[string]bool) (want func(key string) bool, ok bool) {
	kinds := map[string]string{"IPV4": "v4", "IPV6": "v6", "MPLS": "mpls", "NHG": "nhg", "NH": "nh"}
	if q.AFT != "ALL" && kinds[q.AFT] == "" {
		return nil, false
	}
	var ni func(string) bool
	switch q.NI {
	case "all":
		ni = func(string) bool { return true }
	case "name":
		name := niName(q.Name)
		if name == "" || !known[name] {
			return nil, false
		}
		ni = func(n string) bool { return n == name }
	default:
		ni = func(string) bool { return false }
	}
	return func(key string) bool {
		return ni(niOfKey(key)) && (q.AFT == "ALL" || kindOfKey(key) == kinds[q.AFT])
	}, true
}

// checkGet is the property's own predicate for one Get.
func checkGet(q drv.GetSpec, o stepObs, installed map[string]*spb.AFTEntry, known map[string]bool, problems *[]string) {
	want, ok := scopeOf(q, known)
	if !ok {
		if o.getOK {
			addProblem(problems, fmt.Sprintf("Get with an unknown / empty instance name or an unsupported table succeeded (ni=%s aft=%s)", q.NI, q.AFT))
		}
		return
	}
	if !o.getOK {
		addProblem(problems, fmt.Sprintf("Get failed with %s on a valid request (aft=%s)", o.getCode, q.AFT))
		return
	}
	seen := map[string]bool{}
	for _, e := range o.getItems {
		k := entryKey(e)
		if seen[k] {
			addProblem(problems, "Get returned an entry twice ("+kindOfKey(k)+")")
			continue
		}
		seen[k] = true
		w, inst := installed[k]
		if !inst || !want(k) {
			addProblem(problems, "Get returned an entry that is not an installed entry of the requested scope ("+kindOfKey(k)+")")
			continue
		}
		if !proto.Equal(canonEntry(w), canonEntry(e)) {
			addProblem(problems, fmt.Sprintf("Get: payload of a %s entry differs from what was last programmed: %s", kindOfKey(k), diffPaths(w, e)))
		}
	}
	for k := range installed {
		if want(k) && !seen[k] {
			addProblem(problems, "Get did not return an installed entry of the requested scope ("+kindOfKey(k)+")")
		}
	}
}

func runCase(c Case) (*runRes, error) {
	names := []string{}
	known := map[string]bool{"DEFAULT": true}
	for _, v := range c.VRFs {
		if v >= 2 && v <= 3 {
			names = append(names, drv.NINames[v])
			known[drv.NINames[v]] = true
		}
	}
	opts := []server.ServerOpt{}
	if len(names) > 0 {
		opts = append(opts, server.WithVRFs(names))
	}
	d, err := drv.NewServer(opts...)
	if err != nil {
		return nil, err
	}
	s, err := d.Connect()
	if err != nil {
		return nil, err
	}
	defer s.Abort()
	if _, err := s.SendN(&spb.ModifyRequest{Params: &spb.SessionParameters{Redundancy: spb.SessionParameters_SINGLE_PRIMARY, Persistence: spb.SessionParameters_PRESERVE}}, 1); err != nil {
		return nil, err
	}
	if _, err := s.SendN(&spb.ModifyRequest{ElectionId: elecID.Proto()}, 1); err != nil {
		return nil, err
	}
	res := &runRes{}
	installed := map[string]*spb.AFTEntry{}
	ops := map[uint64]progOp{}
	res.steps = append(res.steps, c.Steps...)
	for _, a := range []string{"ALL", "IPV4", "IPV6", "MPLS", "NHG", "NH"} {
		res.steps = append(res.steps, Step{K: "get", Get: &drv.GetSpec{NI: "all", AFT: a}})
	}
	nextID := uint64(0)
	closing := map[string][]*spb.AFTEntry{}
	for i, st := range res.steps {
		var o stepObs
		switch st.K {
		case "add", "replace", "del":
			if st.E == nil {
				res.obs = append(res.obs, o)
				continue
			}
			nextID++
			o.id = nextID
			ni := niName(st.NI)
			b := st.E.Build(ni, st.K == "del")
			op, err := b.OpProto()
			if err != nil {
				return nil, err
			}
			op.Id, op.Op, op.ElectionId = o.id, opKind(st.K), elecID.Proto()
			want, _ := b.EntryProto()
			ops[o.id] = progOp{kind: st.K, key: entryKey(want), want: want}
			o.abs = absOfEntry(want)
			o.bad = st.E.Bad()
			rs, err := s.SendBarrier(&spb.ModifyRequest{Operation: []*spb.AFTOperation{op}})
			if err != nil {
				o.hang = err.Error()
			}
			o.resps = rs
			if s.Ended != nil && o.end == nil {
				o.end = s.Ended
			}
			for _, r := range rs {
				for _, x := range r.GetResult() {
					if x.GetStatus() != spb.AFTResult_RIB_PROGRAMMED {
						continue
					}
					p, ok := ops[x.GetId()]
					if !ok {
						continue
					}
					if p.kind == "del" {
						delete(installed, p.key)
					} else {
						installed[p.key] = p.want
					}
				}
			}
		case "addni":
			if err := d.S.AddNetworkInstance(drv.NINames[st.NI]); err != nil {
				addProblem(&res.problems, "AddNetworkInstance at run time: "+err.Error())
			}
			known[drv.NINames[st.NI]] = true
		case "get":
			if st.Get == nil {
				res.obs = append(res.obs, o)
				continue
			}
			items, gerr, hang := d.DoGet(st.Get.GetReq(), -1)
			o.hang, o.getOK, o.getItems = hang, gerr == nil && hang == "", items
			if gerr != nil {
				o.getCode = status.Code(gerr)
			}
			checkGet(*st.Get, o, installed, known, &res.problems)
			if i >= len(c.Steps) {
				closing[st.Get.AFT] = items
			}
		}
		if o.hang != "" {
			addProblem(&res.problems, "HANG: "+o.hang)
		}
		res.obs = append(res.obs, o)
	}

	// Get(all, ALL) is the disjoint union of the five per-table Gets
	union := map[string]string{}
	for _, a := range []string{"IPV4", "IPV6", "MPLS", "NHG", "NH"} {
		for _, e := range closing[a] {
			k := entryKey(e)
			if _, dup := union[k]; dup {
				addProblem(&res.problems, "the per-table Gets overlap (same instance, kind and key in two tables)")
			}
			union[k] = txt(canonEntry(e))
		}
	}
	all := map[string]string{}
	for _, e := range closing["ALL"] {
		all[entryKey(e)] = txt(canonEntry(e))
	}
	if len(all) != len(closing["ALL"]) || len(all) != len(union) {
		addProblem(&res.problems, "Get(all, ALL) is not the disjoint union of the five per-table Gets (different number of entries)")
	} else {
		for k, v := range all {
			if union[k] != v {
				addProblem(&res.problems, "Get(all, ALL) is not the disjoint union of the five per-table Gets (an entry differs)")
				break
			}
		}
	}
	res.final = closing["ALL"]

	// rebuilding a RIB from the responses reproduces the source RIB
	resps := []*spb.GetResponse{}
	for _, e := range closing["ALL"] {
		resps = append(resps, &spb.GetResponse{Entry: []*spb.AFTEntry{e}})
	}
	nr, err := rib.FromGetResponses("DEFAULT", resps)
	if err != nil {
		addProblem(&res.problems, "rib.FromGetResponses fails on the server's own Get responses")
	} else {
		src, err1 := d.S.VerifRIB().RIBContents()
		dst, err2 := nr.RIBContents()
		if err1 != nil || err2 != nil {
			addProblem(&res.problems, "RIBContents failed")
		} else if p := ribDiff(src, dst); p != "" {
			addProblem(&res.problems, "the RIB rebuilt by rib.FromGetResponses from Get(all, ALL) differs from the source RIB: "+p)
		}
		res.regetOK = true
		nis := nr.KnownNetworkInstances()
		sort.Strings(nis)
		for _, n := range nis {
			h, ok := nr.NetworkInstanceRIB(n)
			if !ok {
				continue
			}
			ch := make(chan *spb.GetResponse, 1<<16)
			if err := h.GetRIB(map[spb.AFTType]bool{spb.AFTType_ALL: true}, ch, make(chan struct{})); err != nil {
				res.regetOK = false
			}
			close(ch)
			for m := range ch {
				res.reget = append(res.reget, m.GetEntry()...)
			}
		}
	}
	return res, nil
}

// ribDiff compares RIB contents instance by instance (an instance without entries equals a missing one).
func ribDiff(a, b map[string]*aft.RIB) string {
	names := map[string]bool{}
	for n := range a {
		names[n] = true
	}
	for n := range b {
		names[n] = true
	}
	sorted := []string{}
	for n := range names {
		sorted = append(sorted, n)
	}
	sort.Strings(sorted)
	leaf := map[string]bool{}
	for _, n := range sorted {
		x, y := a[n], b[n]
		if x == nil {
			x = &aft.RIB{}
		}
		if y == nil {
			y = &aft.RIB{}
		}
		d, err := ygot.Diff(x, y)
		if err != nil {
			return "ygot.Diff: " + err.Error()
		}
		for _, p := range d.GetDelete() {
			s := ""
			for _, e := range p.GetElem() {
				s += "/" + e.GetName()
			}
			leaf["missing "+s] = true
		}
		for _, u := range d.GetUpdate() {
			s := ""
			for _, e := range u.GetPath().GetElem() {
				s += "/" + e.GetName()
			}
			leaf["different "+s] = true
		}
	}
	l := []string{}
	for p := range leaf {
		l = append(l, p)
	}
	sort.Strings(l)
	return strings.Join(l, ", ")
}

// ---------------------------------------------------------------------------- Coq printers

func hints(r *spb.ModifyResponse) (oks, fails []uint64) {
	for _, x := range r.GetResult() {
		switch x.GetStatus() {
		case spb.AFTResult_RIB_PROGRAMMED:
			oks = append(oks, x.GetId())
		case spb.AFTResult_FAILED:
			fails = append(fails, x.GetId())
		}
	}
	return
}

func u128Coq(u drv.U128) string { return fmt.Sprintf("(%d, %d)", u.Hi, u.Lo) }

func nsCoq(xs []uint64) string {
	s := []string{}
	for _, x := range xs {
		s = append(s, fmt.Sprint(x))
	}
	return drv.CoqList(s)
}

// caseShard is the number of cases per cases_<k>.v file (the files are evaluated in parallel; a
// case prints every Get result with its payloads, so the files are kept small).
const caseShard = 20

func writeCasesV(dir, requires, caseType, mism string, cases []string) error {
	for k := 0; k*caseShard < len(cases) || k == 0; k++ {
		lo, hi := k*caseShard, (k+1)*caseShard
		if hi > len(cases) {
			hi = len(cases)
		}
		var b strings.Builder
		b.WriteString("(* written by the harness: the cases the implementation ran, with its observables *)\n")
		b.WriteString(requires + "\n")
		b.WriteString("Definition cases : list " + caseType + " := [\n")
		b.WriteString(strings.Join(cases[lo:hi], ";\n"))
		b.WriteString("\n].\n")
		b.WriteString("Definition M := Eval vm_compute in " + mism + " cases.\nPrint M.\n")
		if err := os.WriteFile(filepath.Join(dir, fmt.Sprintf("cases_%d.v", k)), []byte(b.String()), 0o644); err != nil {
			return err
		}
	}
	return nil
}

func gentries(es []*spb.AFTEntry) string {
	l := []string{}
	for _, e := range es {
		l = append(l, absOfEntry(e).GentryCoq())
	}
	return drv.CoqList(l)
}

func getCoq(q drv.GetSpec) string {
	n := "NNone"
	switch q.NI {
	case "all":
		n = "NAll"
	case "name":
		n = fmt.Sprintf("(NName %d)", q.Name)
	}
	a := q.AFT
	switch a {
	case "ALL", "IPV4", "IPV6", "MPLS", "NHG", "NH":
	default:
		a = "OTHER"
	}
	return fmt.Sprintf("(mk_getreq %s A_%s)", n, a)
}

func caseCoq(c Case, r *runRes) string {
	hs := []string{"SIn (Connect hentry 1)", "SIn (Msg hentry 1 (MParams hentry {| p_red := 1; p_pers := 1; p_ack := 0 |}))",
		fmt.Sprintf("SIn (Msg hentry 1 (MElect hentry %s))", u128Coq(elecID))}
	os := []string{"OMod (mkout [] None)", "OMod (mkout [RParamsOK] None)", fmt.Sprintf("OMod (mkout [RElect (Some %s)] None)", u128Coq(elecID))}
	for i, st := range r.steps {
		o := r.obs[i]
		switch st.K {
		case "add", "replace", "del":
			if st.E == nil {
				continue
			}
			var oks, fails []uint64
			if len(o.resps) > 0 {
				oks, fails = hints(o.resps[0])
			}
			kind := map[string]string{"add": "ADD", "replace": "REPLACE", "del": "DELETE"}[st.K]
			hs = append(hs, fmt.Sprintf("SIn (Msg hentry 1 (MOps hentry [mk_hop %d %d %s (Some %s) (%s) %s %s]))", o.id, st.NI, kind, u128Coq(elecID),
				o.abs.EntryCoq(o.bad), nsCoq(fails), nsCoq(oks)))
			os = append(os, "OMod ("+strings.ReplaceAll(drv.OutCoq(drv.ObsOut{Resps: o.resps, End: o.end}), "%N", "")+")")
		case "get":
			if st.Get == nil {
				continue
			}
			hs = append(hs, "SGet "+getCoq(*st.Get))
			if o.getOK {
				os = append(os, "OGet (Some "+gentries(o.getItems)+")")
			} else {
				os = append(os, "OGet None")
			}
		}
	}
	vr := []uint64{}
	for _, v := range c.VRFs {
		if v >= 2 && v <= 3 {
			vr = append(vr, uint64(v))
		}
	}
	if c.Late != 0 {
		vr = append(vr, uint64(c.Late))
	}
	rg := "None"
	if r.regetOK {
		rg = "(Some " + gentries(r.reget) + ")"
	}
	return fmt.Sprintf("mk_gcase %s\n %s\n %s\n %s", nsCoq(vr), drv.CoqList(hs), drv.CoqList(os), rg)
}

// ---------------------------------------------------------------------------- main

func runC07(args []string) error {
	f := drv.NewFlags("c07")
	if err := f.Parse(args); err != nil {
		return err
	}
	if err := checkBuilderTable(); err != nil {
		return err
	}
	var cases []Case
	if *f.Replay != "" {
		if err := drv.ReadJSON(*f.Replay, &cases); err != nil {
			return err
		}
	} else {
		r := drv.NewRng(*f.Seed)
		for i := 0; i < *f.N; i++ {
			cases = append(cases, genCase(r))
		}
		cases = append(cases, bigCase(300), bigCase(1100))
	}
	rep := drv.Report{Property: "C07", Seed: *f.Seed, Shard: caseShard, Stats: map[string]int{}, Cases: len(cases),
		Rule: "a primary session programs next hops, groups and IPv4/IPv6/MPLS entries built with the fluent builders (every With*/Add* method, random subsets and combinations, cross-instance group references, implicit and explicit replaces, deletes, some values the schema rejects) in up to three instances, interleaved with Get over {no instance, all, \"\", DEFAULT, VRF-A, VRF-B, unknown} x {ALL, IPV4, IPV6, MPLS, NEXTHOP_GROUP, NEXTHOP, unsupported}; non-trivial = the closing Get(all, ALL) returned entries of at least three kinds, some returned next hop carries at least three leaves, and the script itself contains a Get that returned entries and a Get that was filtered by table or instance or was rejected; distinct by script text"}
	var coq []string
	distinct := map[string]bool{}
	for i, c := range cases {
		res, err := runCase(c)
		if err != nil {
			return fmt.Errorf("case %d: %v", i, err)
		}
		if len(res.problems) > 0 {
			sort.Strings(res.problems)
			rep.Violations = append(rep.Violations, drv.Verdict{Case: i, Problem: strings.Join(res.problems, " | ")})
		}
		coq = append(coq, caseCoq(c, res))
		// statistics
		gotEntries, filtered := false, false
		for j, st := range c.Steps {
			o := res.obs[j]
			rep.Stats["step_"+st.K]++
			switch st.K {
			case "add", "replace", "del":
				if st.E == nil {
					continue
				}
				rep.Stats["entry_"+st.E.T]++
				if st.K != "del" {
					for _, m := range st.E.Methods() {
						rep.Stats["builder_"+m]++
					}
					if st.E.Bad() {
						rep.Stats["entry_with_rejected_value"]++
					}
					if st.E.NHGNI != nil && *st.E.NHGNI != st.NI {
						rep.Stats["cross_instance_group_reference"]++
					}
				}
				if len(o.resps) > 0 && len(o.resps[0].GetResult()) == 0 {
					rep.Stats["op_held"]++
				}
				for _, r := range o.resps {
					for _, x := range r.GetResult() {
						rep.Stats["result_"+x.GetStatus().String()]++
					}
				}
			case "get":
				if st.Get == nil {
					continue
				}
				sel := st.Get.NI
				if sel == "name" {
					sel = "name:" + niName(st.Get.Name)
				}
				rep.Stats[fmt.Sprintf("get_%s_%s", sel, st.Get.AFT)]++
				if o.getOK {
					rep.Stats["get_ok"]++
					rep.Stats[fmt.Sprintf("get_ok_entries_%02d", min(len(o.getItems), 10))]++
					if len(o.getItems) > 0 {
						gotEntries = true
					}
					if st.Get.AFT != "ALL" || st.Get.NI == "name" {
						filtered = true
					}
				} else {
					rep.Stats["get_err_"+o.getCode.String()]++
					filtered = true
				}
			}
		}
		kinds := map[string]bool{}
		richNH := false
		for _, e := range res.final {
			a := absOfEntry(e)
			kinds[a.Kind] = true
			if a.Kind == "nh" && len(a.X) >= 3 {
				richNH = true
			}
		}
		rep.Stats[fmt.Sprintf("final_entries_%02d", min(len(res.final), 12))]++
		if len(kinds) >= 3 && richNH && gotEntries && filtered {
			b, _ := json.Marshal(c)
			distinct[string(b)] = true
		}
		if i < 2 {
			sample := []string{}
			for j, st := range c.Steps {
				b, _ := json.Marshal(st)
				o := res.obs[j]
				out := ""
				switch {
				case st.K == "get" && o.getOK:
					out = fmt.Sprintf("OK %d entries", len(o.getItems))
				case st.K == "get":
					out = "error " + o.getCode.String()
				default:
					out = drv.OutText(drv.ObsOut{Resps: o.resps, End: o.end, Hang: o.hang})
				}
				sample = append(sample, string(b)+" => "+out)
			}
			rep.Samples = append(rep.Samples, sample)
		}
	}
	rep.Nontrivial = len(distinct)
	// one representative of every distinct problem first (the check reports the first few cases)
	firstOf := map[string]bool{}
	var head, tail []drv.Verdict
	for _, v := range rep.Violations {
		if !firstOf[v.Problem] {
			firstOf[v.Problem] = true
			head = append(head, v)
		} else {
			tail = append(tail, v)
		}
	}
	rep.Violations = append(head, tail...)
	rep.Stats["oracle_distinct_problem_texts"] = len(firstOf)
	if err := drv.WriteJSON(*f.Out+"/cases.json", cases); err != nil {
		return err
	}
	req := "From Coq Require Import List NArith Bool String.\nFrom GV.Base Require Import Op U128.\nFrom GV.Rib Require Import Model Run.\nFrom GV.Server Require Import Model Obs Inst.\nFrom GV.Codec Require Import Fields Wire GetCases.\nImport ListNotations.\nOpen Scope N_scope.\n" +
		"(* the field inventory of the five entry messages, by reflection over the protobuf descriptors linked into the harness *)\n" +
		"Definition harness_table : list row := (\n  " + inventoryCoq() + ")%string."
	if err := writeCasesV(*f.Out, req, "gcase", "c07_mismatches harness_table", coq); err != nil {
		return err
	}
	return drv.WriteJSON(*f.Out+"/impl.json", rep)
}
