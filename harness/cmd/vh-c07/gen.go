package main

// Cases of the C07 harness: entries described by the fluent builder calls that construct them,
// programmed through the real server, interleaved with Get requests.

import (
	"verifharness/drv"

	"github.com/openconfig/gribigo/fluent"

	spb "github.com/openconfig/gribi/v1/proto/service"
)

// Hdr is one AddEncapHeader argument.
type Hdr struct {
	MPLS    bool     `json:"mpls,omitempty"` // MPLSEncapHeader().WithLabels(...); otherwise UDPV6EncapHeader()
	Labels  []uint64 `json:"labels,omitempty"`
	DSCP    *uint64  `json:"dscp,omitempty"`
	DstIP   *string  `json:"dst_ip,omitempty"`
	DstPort *uint64  `json:"dst_port,omitempty"`
	TTL     *uint64  `json:"ttl,omitempty"`
	SrcIP   *string  `json:"src_ip,omitempty"`
	SrcPort *uint64  `json:"src_port,omitempty"`
}

// Entry is an AFT entry as a set of builder calls.
type Entry struct {
	T   string `json:"t"`   // v4 v6 mpls nhg nh
	Key uint64 `json:"key"` // v4/v6: prefix code; mpls: label; nhg: id; nh: index
	// IPv4Entry / IPv6Entry / LabelEntry
	NHG    *uint64   `json:"nhg,omitempty"`    // WithNextHopGroup
	NHGNI  *int      `json:"nhgni,omitempty"`  // WithNextHopGroupNetworkInstance (instance code)
	Meta   *[]int    `json:"meta,omitempty"`   // WithMetadata (bytes)
	Popped *[]uint32 `json:"popped,omitempty"` // WithPoppedLabelStack
	// NextHopGroupEntry
	NHs [][2]uint64 `json:"nhs,omitempty"` // AddNextHop(index, weight) in order
	Bk  *uint64     `json:"bk,omitempty"`  // WithBackupNHG
	// NextHopEntry
	IP     *string    `json:"ip,omitempty"`     // WithIPAddress
	If     *string    `json:"if,omitempty"`     // WithInterfaceRef (WithSubinterfaceRef if Subif is set)
	Subif  *uint64    `json:"subif,omitempty"`  // WithSubinterfaceRef(If, Subif)
	Mac    *string    `json:"mac,omitempty"`    // WithMacAddress
	IPinIP *[2]string `json:"ipinip,omitempty"` // WithIPinIP(src, dst)
	NHNI   *string    `json:"nhni,omitempty"`   // WithNextHopNetworkInstance
	PopTop bool       `json:"poptop,omitempty"` // WithPopTopLabel
	Pushed *[]uint32  `json:"pushed,omitempty"` // WithPushedLabelStack
	Decap  int        `json:"decap,omitempty"`  // WithDecapsulateHeader: 1 IPinIP 2 MPLS 3 UDPV6
	Encap  int        `json:"encap,omitempty"`  // WithEncapsulateHeader
	Hdrs   []Hdr      `json:"hdrs,omitempty"`   // AddEncapHeader, in order
}

// Step is one step of a case.
type Step struct {
	K   string       `json:"k"` // add replace del get
	NI  int          `json:"ni,omitempty"`
	E   *Entry       `json:"e,omitempty"`
	Get *drv.GetSpec `json:"get,omitempty"`
}

// Case is a script against one server.
type Case struct {
	VRFs  []int  `json:"vrfs"`
	Steps []Step `json:"steps"`
	// Late: a network instance created at run time by an "addni" step (nothing names it before that step, so for the
	// model it may as well exist from the start: it is printed among the VRFs and the step itself is not)
	Late int `json:"late,omitempty"`
}

func niName(c int) string {
	if c < 0 || c >= len(drv.NINames) {
		return "NOPE"
	}
	return drv.NINames[c]
}

func header(n int) fluent.Header {
	switch n {
	case 1:
		return fluent.IPinIP
	case 2:
		return fluent.MPLS
	}
	return fluent.UDPV6
}

// Build constructs the entry with the real fluent builders; keyOnly builds just the key (DELETE).
func (e Entry) Build(ni string, keyOnly bool) fluent.GRIBIEntry {
	switch e.T {
	case "v4":
		b := fluent.IPv4Entry().WithNetworkInstance(ni).WithPrefix(v4Keys[e.Key])
		if keyOnly {
			return b
		}
		if e.NHG != nil {
			b = b.WithNextHopGroup(*e.NHG)
		}
		if e.NHGNI != nil {
			b = b.WithNextHopGroupNetworkInstance(niName(*e.NHGNI))
		}
		if e.Meta != nil {
			b = b.WithMetadata(bytesOf(*e.Meta))
		}
		return b
	case "v6":
		b := fluent.IPv6Entry().WithNetworkInstance(ni).WithPrefix(v6Keys[e.Key])
		if keyOnly {
			return b
		}
		if e.NHG != nil {
			b = b.WithNextHopGroup(*e.NHG)
		}
		if e.NHGNI != nil {
			b = b.WithNextHopGroupNetworkInstance(niName(*e.NHGNI))
		}
		if e.Meta != nil {
			b = b.WithMetadata(bytesOf(*e.Meta))
		}
		return b
	case "mpls":
		b := fluent.LabelEntry().WithNetworkInstance(ni).WithLabel(uint32(e.Key))
		if keyOnly {
			return b
		}
		if e.NHG != nil {
			b = b.WithNextHopGroup(*e.NHG)
		}
		if e.NHGNI != nil {
			b = b.WithNextHopGroupNetworkInstance(niName(*e.NHGNI))
		}
		if e.Popped != nil {
			b = b.WithPoppedLabelStack(*e.Popped...)
		}
		return b
	case "nhg":
		b := fluent.NextHopGroupEntry().WithNetworkInstance(ni).WithID(e.Key)
		if keyOnly {
			return b
		}
		for _, nh := range e.NHs {
			b = b.AddNextHop(nh[0], nh[1])
		}
		if e.Bk != nil {
			b = b.WithBackupNHG(*e.Bk)
		}
		return b
	}
	b := fluent.NextHopEntry().WithNetworkInstance(ni).WithIndex(e.Key)
	if keyOnly {
		return b
	}
	if e.IP != nil {
		b = b.WithIPAddress(*e.IP)
	}
	if e.If != nil && e.Subif == nil {
		b = b.WithInterfaceRef(*e.If)
	}
	if e.Subif != nil {
		name := ""
		if e.If != nil {
			name = *e.If
		}
		b = b.WithSubinterfaceRef(name, *e.Subif)
	}
	if e.Mac != nil {
		b = b.WithMacAddress(*e.Mac)
	}
	if e.IPinIP != nil {
		b = b.WithIPinIP(e.IPinIP[0], e.IPinIP[1])
	}
	if e.NHNI != nil {
		b = b.WithNextHopNetworkInstance(*e.NHNI)
	}
	if e.PopTop {
		b = b.WithPopTopLabel()
	}
	if e.Pushed != nil {
		b = b.WithPushedLabelStack(*e.Pushed...)
	}
	if e.Decap != 0 {
		b = b.WithDecapsulateHeader(header(e.Decap))
	}
	if e.Encap != 0 {
		b = b.WithEncapsulateHeader(header(e.Encap))
	}
	for _, h := range e.Hdrs {
		if h.MPLS {
			b = b.AddEncapHeader(fluent.MPLSEncapHeader().WithLabels(h.Labels...))
			continue
		}
		u := fluent.UDPV6EncapHeader()
		if h.DSCP != nil {
			u = u.WithDSCP(*h.DSCP)
		}
		if h.DstIP != nil {
			u = u.WithDstIP(*h.DstIP)
		}
		if h.DstPort != nil {
			u = u.WithDstUDPPort(*h.DstPort)
		}
		if h.TTL != nil {
			u = u.WithIPTTL(*h.TTL)
		}
		if h.SrcIP != nil {
			u = u.WithSrcIP(*h.SrcIP)
		}
		if h.SrcPort != nil {
			u = u.WithSrcUDPPort(*h.SrcPort)
		}
		b = b.AddEncapHeader(u)
	}
	return b
}

func bytesOf(x []int) []byte {
	b := make([]byte, len(x))
	for i, v := range x {
		b[i] = byte(v)
	}
	return b
}

// Bad is the harness's own statement of which builder values the AFT schema rejects (the entry is
// then answered FAILED and never installed): a label outside 16..2^20-1 inside a label stack (the
// reserved labels exist only as enum members, which the builders cannot express), an IP TTL above
// 255, a DSCP above 63, a port above 65535, a subinterface above 2^32-1, metadata that is empty or
// longer than 8 bytes.
func (e Entry) Bad() bool {
	stack := func(l []uint64) bool {
		for _, x := range l {
			if x < 16 || x > 1048575 {
				return true
			}
		}
		return false
	}
	s32 := func(p *[]uint32) bool {
		if p == nil {
			return false
		}
		l := []uint64{}
		for _, x := range *p {
			l = append(l, uint64(x))
		}
		return stack(l)
	}
	if e.Meta != nil && (len(*e.Meta) == 0 || len(*e.Meta) > 8) {
		return true
	}
	switch e.T {
	case "mpls":
		return s32(e.Popped)
	case "nh":
		if s32(e.Pushed) || (e.Subif != nil && *e.Subif > 1<<32-1) {
			return true
		}
		for _, h := range e.Hdrs {
			if h.MPLS && stack(h.Labels) {
				return true
			}
			if (h.TTL != nil && *h.TTL > 255) || (h.DSCP != nil && *h.DSCP > 63) ||
				(h.DstPort != nil && *h.DstPort > 65535) || (h.SrcPort != nil && *h.SrcPort > 65535) {
				return true
			}
		}
	}
	return false
}

// Methods lists the builder methods the entry uses (input statistics).
func (e Entry) Methods() []string {
	m := []string{}
	add := func(c bool, n string) {
		if c {
			m = append(m, n)
		}
	}
	switch e.T {
	case "v4", "v6", "mpls":
		p := map[string]string{"v4": "IPv4Entry", "v6": "IPv6Entry", "mpls": "LabelEntry"}[e.T]
		add(e.NHG != nil, p+".WithNextHopGroup")
		add(e.NHGNI != nil, p+".WithNextHopGroupNetworkInstance")
		add(e.Meta != nil && e.T != "mpls", p+".WithMetadata")
		add(e.Popped != nil && e.T == "mpls", p+".WithPoppedLabelStack")
	case "nhg":
		add(len(e.NHs) > 0, "NextHopGroupEntry.AddNextHop")
		add(e.Bk != nil, "NextHopGroupEntry.WithBackupNHG")
	case "nh":
		add(e.IP != nil, "NextHopEntry.WithIPAddress")
		add(e.If != nil && e.Subif == nil, "NextHopEntry.WithInterfaceRef")
		add(e.Subif != nil, "NextHopEntry.WithSubinterfaceRef")
		add(e.Mac != nil, "NextHopEntry.WithMacAddress")
		add(e.IPinIP != nil, "NextHopEntry.WithIPinIP")
		add(e.NHNI != nil, "NextHopEntry.WithNextHopNetworkInstance")
		add(e.PopTop, "NextHopEntry.WithPopTopLabel")
		add(e.Pushed != nil, "NextHopEntry.WithPushedLabelStack")
		add(e.Decap != 0, "NextHopEntry.WithDecapsulateHeader")
		add(e.Encap != 0, "NextHopEntry.WithEncapsulateHeader")
		for _, h := range e.Hdrs {
			if h.MPLS {
				m = append(m, "NextHopEntry.AddEncapHeader(MPLSEncapHeader)")
				add(len(h.Labels) > 0, "MPLSEncapHeader.WithLabels")
				continue
			}
			m = append(m, "NextHopEntry.AddEncapHeader(UDPV6EncapHeader)")
			add(h.DSCP != nil, "UDPV6EncapHeader.WithDSCP")
			add(h.DstIP != nil, "UDPV6EncapHeader.WithDstIP")
			add(h.DstPort != nil, "UDPV6EncapHeader.WithDstUDPPort")
			add(h.TTL != nil, "UDPV6EncapHeader.WithIPTTL")
			add(h.SrcIP != nil, "UDPV6EncapHeader.WithSrcIP")
			add(h.SrcPort != nil, "UDPV6EncapHeader.WithSrcUDPPort")
		}
	}
	return m
}

func opKind(k string) spb.AFTOperation_Operation {
	switch k {
	case "add":
		return spb.AFTOperation_ADD
	case "replace":
		return spb.AFTOperation_REPLACE
	case "del":
		return spb.AFTOperation_DELETE
	}
	return spb.AFTOperation_INVALID
}

// ---------------------------------------------------------------------------- generator

func p64(v uint64) *uint64  { return &v }
func pstr(s string) *string { return &s }
func pint(v int) *int       { return &v }

type gen struct {
	r    *drv.Rng
	c    *Case
	has  map[int]bool            // instances that exist
	nh   map[int]map[uint64]bool // believed installed next hops per instance
	nhg  map[int]map[uint64]bool
	tops []Step // believed installed top-level entries
}

var (
	ipPool    = []string{"192.0.2.1", "192.0.2.2", "2001:db8::9", "2001:DB8::A"}
	ip6Pool   = []string{"2001:db8::1", "2001:db8::2", "::1"}
	macPool   = []string{"00:11:22:33:44:55", "0a:0b:0c:0d:0e:0f", "AA:BB:CC:DD:EE:FF"}
	ifPool    = []string{"eth0", "Ethernet1/2", "", "port-channel1.100 é[x=1]"}
	nhniPool  = []string{"DEFAULT", "VRF-A", "VRF-B", "nowhere"}
	stackPool = [][]uint32{{100}, {100, 200}, {200, 100, 100}, {1048575, 16}, {17, 16, 1000}, {}}
	badStacks = [][]uint32{{0}, {100, 0}, {1048576}, {3, 2, 1}, {100, 15}}
	metaPool  = [][]int{{1, 2, 3, 4, 5, 6, 7, 8}, {0, 0, 0, 0, 0, 0, 0, 0}, {255}, {0xff, 0, 7}, {8, 7, 6, 5, 4, 3, 2, 1}}
	badMeta   = [][]int{{}, {1, 2, 3, 4, 5, 6, 7, 8, 9}}
	weights   = []uint64{0, 1, 5, 64, 1 << 63}
	labels    = []uint64{100, 200, 16, 1048575}
)

func (g *gen) existingNI() int {
	l := []int{}
	for n := range g.has {
		l = append(l, n)
	}
	// deterministic order
	for i := 0; i < len(l); i++ {
		for j := i + 1; j < len(l); j++ {
			if l[j] < l[i] {
				l[i], l[j] = l[j], l[i]
			}
		}
	}
	return l[g.r.Intn(len(l))]
}

func (g *gen) opNI() int {
	switch {
	case g.r.Chance(1, 40):
		return 0
	case g.r.Chance(1, 30):
		return 4
	case g.r.Chance(1, 15):
		if n := drv.Pick(g.r, 2, 3); n != g.c.Late || g.has[n] {
			return n
		}
	}
	return g.existingNI()
}

func keysOf(m map[uint64]bool) []uint64 {
	l := []uint64{}
	for k := range m {
		l = append(l, k)
	}
	for i := 0; i < len(l); i++ {
		for j := i + 1; j < len(l); j++ {
			if l[j] < l[i] {
				l[i], l[j] = l[j], l[i]
			}
		}
	}
	return l
}

func (g *gen) genNH() Entry {
	r := g.r
	e := Entry{T: "nh", Key: uint64(1 + r.Intn(4))}
	if r.Chance(1, 25) {
		return e // no With* call at all: the inner message stays nil
	}
	p := 3
	if r.Chance(1, 6) {
		p = 8 // almost everything
	}
	on := func() bool { return r.Chance(p, 10) }
	if on() {
		e.IP = pstr(drv.Pick(r, ipPool...))
	}
	if on() {
		e.If = pstr(drv.Pick(r, ifPool...))
		if r.Chance(1, 2) {
			e.Subif = p64(drv.Pick(r, uint64(0), 7, 1<<32-1))
			if r.Chance(1, 30) {
				e.Subif = p64(1 << 32)
			}
		}
	}
	if on() {
		e.Mac = pstr(drv.Pick(r, macPool...))
	}
	if on() {
		e.IPinIP = &[2]string{drv.Pick(r, ipPool[:2]...), drv.Pick(r, ipPool[:2]...)}
	}
	if on() {
		e.NHNI = pstr(drv.Pick(r, nhniPool...))
	}
	if on() {
		e.PopTop = true
	}
	if on() {
		s := append([]uint32{}, drv.Pick(r, stackPool...)...)
		if r.Chance(1, 20) {
			s = append([]uint32{}, drv.Pick(r, badStacks...)...)
		}
		e.Pushed = &s
	}
	if on() {
		e.Decap = 1 + r.Intn(3)
	}
	if on() {
		e.Encap = 1 + r.Intn(3)
	}
	if on() {
		for n := 1 + r.Intn(3); n > 0; n-- {
			if r.Chance(1, 2) {
				h := Hdr{MPLS: true}
				for k := r.Intn(4); k > 0; k-- {
					h.Labels = append(h.Labels, drv.Pick(r, labels...))
				}
				if r.Chance(1, 25) {
					h.Labels = append(h.Labels, 0)
				}
				e.Hdrs = append(e.Hdrs, h)
				continue
			}
			h := Hdr{}
			if r.Chance(1, 2) {
				h.DSCP = p64(drv.Pick(r, uint64(0), 3, 63))
			}
			if r.Chance(1, 2) {
				h.DstIP = pstr(drv.Pick(r, ip6Pool...))
			}
			if r.Chance(1, 2) {
				h.DstPort = p64(drv.Pick(r, uint64(0), 4000, 65535))
			}
			if r.Chance(1, 2) {
				h.TTL = p64(drv.Pick(r, uint64(0), 1, 64, 255))
				if r.Chance(1, 25) {
					h.TTL = p64(256)
				}
			}
			if r.Chance(1, 2) {
				h.SrcIP = pstr(drv.Pick(r, ip6Pool...))
			}
			if r.Chance(1, 2) {
				h.SrcPort = p64(drv.Pick(r, uint64(0), 5000, 65535))
			}
			e.Hdrs = append(e.Hdrs, h)
		}
	}
	// make sure some With* call happened (otherwise the inner message is nil)
	if e.IP == nil && e.If == nil && e.Mac == nil && e.IPinIP == nil && e.NHNI == nil && !e.PopTop && e.Pushed == nil &&
		e.Decap == 0 && e.Encap == 0 && len(e.Hdrs) == 0 {
		switch r.Intn(3) {
		case 0:
			e.PopTop = true
		case 1:
			e.IP = pstr(drv.Pick(r, ipPool...))
		default:
			e.Mac = pstr(drv.Pick(r, macPool...))
		}
	}
	return e
}

func (g *gen) genNHG(ni int) Entry {
	r := g.r
	e := Entry{T: "nhg", Key: uint64(1 + r.Intn(3))}
	have := keysOf(g.nh[ni])
	used := map[uint64]bool{}
	for n := 1 + r.Intn(3); n > 0; n-- {
		idx := uint64(1 + r.Intn(4))
		if len(have) > 0 && r.Chance(9, 10) {
			idx = have[r.Intn(len(have))]
		}
		if used[idx] { // a duplicate member is C03 / F8 territory (and map order decides the weight)
			continue
		}
		used[idx] = true
		e.NHs = append(e.NHs, [2]uint64{idx, drv.Pick(r, weights...)})
	}
	if r.Chance(1, 4) {
		e.Bk = p64(drv.Pick(r, uint64(1), 2, 3, 7, 0))
	}
	return e
}

func (g *gen) genTop(ni int) Entry {
	r := g.r
	e := Entry{T: drv.Pick(r, "v4", "v4", "v6", "mpls")}
	switch e.T {
	case "mpls":
		e.Key = drv.Pick(r, labels...)
	default:
		e.Key = uint64(1 + r.Intn(4))
	}
	target := ni
	if r.Chance(3, 10) { // cross-instance reference
		target = g.existingNI()
		e.NHGNI = pint(target)
		if r.Chance(1, 20) {
			e.NHGNI = pint(drv.Pick(r, 0, 4))
		}
	}
	ids := keysOf(g.nhg[target])
	id := uint64(1 + r.Intn(3))
	if len(ids) > 0 && r.Chance(9, 10) {
		id = ids[r.Intn(len(ids))]
	}
	if r.Chance(1, 40) {
		id = 0
	}
	e.NHG = p64(id)
	if e.T != "mpls" && r.Chance(4, 10) {
		m := append([]int{}, drv.Pick(r, metaPool...)...)
		if r.Chance(1, 12) {
			m = append([]int{}, drv.Pick(r, badMeta...)...)
		}
		e.Meta = &m
	}
	if e.T == "mpls" && r.Chance(5, 10) {
		s := append([]uint32{}, drv.Pick(r, stackPool...)...)
		if r.Chance(1, 15) {
			s = append([]uint32{}, drv.Pick(r, badStacks...)...)
		}
		e.Popped = &s
	}
	return e
}

var getNIs = []drv.GetSpec{{NI: "none"}, {NI: "all"}, {NI: "name", Name: 0}, {NI: "name", Name: 1}, {NI: "name", Name: 2}, {NI: "name", Name: 3}, {NI: "name", Name: 4}}
var getAFTs = []string{"ALL", "IPV4", "IPV6", "MPLS", "NHG", "NH", "OTHER"}

func (g *gen) genGet() Step {
	q := getNIs[g.r.Intn(len(getNIs))]
	if g.r.Chance(1, 2) {
		q = drv.Pick(g.r, getNIs[1], getNIs[3], getNIs[4])
	}
	if q.NI == "name" && q.Name == g.c.Late && !g.has[q.Name] {
		q = getNIs[1]
	}
	q.AFT = getAFTs[g.r.Intn(len(getAFTs))]
	return Step{K: "get", Get: &q}
}

// bigCase: more entries in one table than any plausible batching limit of the Get stream (one instance, one table
// and ALL), so that a response that packs or splits entries must still deliver every one of them.
func bigCase(n int) Case {
	c := Case{VRFs: []int{2}}
	ip := ipPool[0]
	for i := 1; i <= n; i++ {
		e := Entry{T: "nh", Key: uint64(i), IP: &ip}
		c.Steps = append(c.Steps, Step{K: "add", NI: 1 + i%2, E: &e})
	}
	c.Steps = append(c.Steps, Step{K: "get", Get: &drv.GetSpec{NI: "name", Name: 1, AFT: "NH"}},
		Step{K: "get", Get: &drv.GetSpec{NI: "all", AFT: "ALL"}}, Step{K: "get", Get: &drv.GetSpec{NI: "all", AFT: "NH"}})
	return c
}

func genCase(r *drv.Rng) Case {
	c := Case{VRFs: []int{}}
	switch {
	case r.Chance(6, 10):
		c.VRFs = []int{2, 3}
	case r.Chance(6, 10):
		c.VRFs = []int{2}
	}
	g := &gen{r: r, c: &c, has: map[int]bool{1: true}, nh: map[int]map[uint64]bool{}, nhg: map[int]map[uint64]bool{}}
	for _, v := range c.VRFs {
		g.has[v] = true
	}
	for n := 0; n <= 4; n++ {
		g.nh[n], g.nhg[n] = map[uint64]bool{}, map[uint64]bool{}
	}
	n := 8 + r.Intn(24)
	if !g.has[3] && r.Chance(1, 2) {
		c.Late = 3
	}
	for i := 0; i < n; i++ {
		if c.Late != 0 && !g.has[c.Late] && i == n/2 {
			// everything is read once, then the instance is created at run time; what is programmed into it afterwards
			// must show up in every later Get over all instances
			c.Steps = append(c.Steps, Step{K: "get", Get: &drv.GetSpec{NI: "all", AFT: "ALL"}}, Step{K: "addni", NI: c.Late})
			g.has[c.Late] = true
			e := g.genNH()
			e.Key = 1
			if e.Bad() || e.IP == nil {
				e = Entry{T: "nh", Key: 1, IP: pstr(ipPool[0])}
			}
			g.nh[c.Late][1] = true
			c.Steps = append(c.Steps, Step{K: "add", NI: c.Late, E: &e})
		}
		x := r.Intn(100)
		// early steps build the lower layers so that later ones resolve
		if i < 3 {
			x = r.Intn(30)
		} else if i < 6 {
			x = r.Intn(55)
		}
		ni := g.opNI()
		switch {
		case x < 25:
			e := g.genNH()
			if !e.Bad() && g.has[ni] && (e.IP != nil || e.If != nil || e.Mac != nil || e.IPinIP != nil || e.NHNI != nil || e.PopTop || e.Pushed != nil || e.Decap != 0 || e.Encap != 0 || len(e.Hdrs) > 0) {
				g.nh[ni][e.Key] = true
			}
			c.Steps = append(c.Steps, Step{K: "add", NI: ni, E: &e})
		case x < 45:
			e := g.genNHG(ni)
			ok := g.has[ni] && len(e.NHs) > 0
			for _, nh := range e.NHs {
				ok = ok && g.nh[ni][nh[0]]
			}
			if ok {
				g.nhg[ni][e.Key] = true
			}
			c.Steps = append(c.Steps, Step{K: "add", NI: ni, E: &e})
		case x < 70:
			e := g.genTop(ni)
			st := Step{K: "add", NI: ni, E: &e}
			g.tops = append(g.tops, st)
			c.Steps = append(c.Steps, st)
		case x < 78 && len(g.tops) > 0:
			// an installed entry is programmed again with the same group and only its optional leaves changed,
			// added or removed: what Get returns is the payload programmed last
			t := g.tops[r.Intn(len(g.tops))]
			e := *t.E
			switch r.Intn(3) {
			case 0:
				e.Meta, e.Popped = nil, nil
			case 1:
				if e.T == "mpls" {
					st := append([]uint32{}, drv.Pick(r, stackPool...)...)
					e.Popped = &st
				} else {
					m := append([]int{}, drv.Pick(r, metaPool...)...)
					e.Meta = &m
				}
			default:
				if e.NHGNI != nil && *e.NHGNI == t.NI {
					e.NHGNI = nil
				}
			}
			st := Step{K: drv.Pick(r, "add", "replace"), NI: t.NI, E: &e}
			g.tops = append(g.tops, st)
			c.Steps = append(c.Steps, st)
		case x < 81 && len(g.tops) > 0:
			t := g.tops[r.Intn(len(g.tops))]
			e := Entry{T: t.E.T, Key: t.E.Key}
			c.Steps = append(c.Steps, Step{K: "del", NI: t.NI, E: &e})
		case x < 83:
			// delete a next hop or a group (fails while referenced)
			e := Entry{T: drv.Pick(r, "nh", "nhg"), Key: uint64(1 + r.Intn(3))}
			c.Steps = append(c.Steps, Step{K: "del", NI: ni, E: &e})
		case x < 88:
			var e Entry
			switch r.Intn(3) {
			case 0:
				e = g.genNH()
			case 1:
				e = g.genNHG(ni)
			default:
				e = g.genTop(ni)
			}
			c.Steps = append(c.Steps, Step{K: "replace", NI: ni, E: &e})
		default:
			c.Steps = append(c.Steps, g.genGet())
		}
	}
	for k := 2 + r.Intn(3); k > 0; k-- {
		c.Steps = append(c.Steps, g.genGet())
	}
	return c
}
