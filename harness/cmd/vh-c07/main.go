// vh-c07 is the correspondence / oracle harness of property C07 (Get returns exactly the installed
// entries, payload-faithful, correctly filtered).
package main

import (
	"fmt"

	"verifharness/drv"
)

func main() {
	drv.Main(map[string]drv.Cmd{"c07": runC07, "c07conc": drv.SnapCmd("C07"), "inventory": func([]string) error { fmt.Println(inventoryCoq()); return nil }})
}
