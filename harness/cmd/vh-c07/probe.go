package main

import (
	"fmt"

	"verifharness/drv"

	"github.com/openconfig/gribigo/fluent"
	"github.com/openconfig/gribigo/rib"
	"github.com/openconfig/ygot/ygot"
	"google.golang.org/protobuf/encoding/prototext"
	"google.golang.org/protobuf/proto"

	spb "github.com/openconfig/gribi/v1/proto/service"
)

func probe(args []string) error {
	f := drv.NewFlags("probe")
	if err := f.Parse(args); err != nil {
		return err
	}
	type tc struct {
		name string
		e    fluent.GRIBIEntry
	}
	nh := func() interface {
		fluent.GRIBIEntry
	} {
		return nil
	}
	_ = nh
	tests := []tc{
		{"nh1", fluent.NextHopEntry().WithNetworkInstance("DEFAULT").WithIndex(1).WithIPAddress("192.0.2.1").WithMacAddress("00:11:22:33:44:55").WithSubinterfaceRef("eth0", 3).AddEncapHeader(fluent.MPLSEncapHeader().WithLabels(100), fluent.UDPV6EncapHeader().WithDSCP(3))},
		{"nh1 again", fluent.NextHopEntry().WithNetworkInstance("DEFAULT").WithIndex(1).WithIPAddress("192.0.2.2")},
		{"nh2", fluent.NextHopEntry().WithNetworkInstance("DEFAULT").WithIndex(2).WithInterfaceRef("")},
		{"nh3", fluent.NextHopEntry().WithNetworkInstance("DEFAULT").WithIndex(3).WithInterfaceRef("Ethernet1/2[3]=x \u00e9")},
		{"nh4", fluent.NextHopEntry().WithNetworkInstance("DEFAULT").WithIndex(4).WithSubinterfaceRef("e", 1<<32)},
		{"nh5", fluent.NextHopEntry().WithNetworkInstance("DEFAULT").WithIndex(5).WithMacAddress("AA:BB:CC:DD:EE:FF").WithIPAddress("2001:DB8::1")},
		{"nh6", fluent.NextHopEntry().WithNetworkInstance("DEFAULT").WithIndex(6).WithNextHopNetworkInstance("does-not-exist")},
		{"nhg1", fluent.NextHopGroupEntry().WithNetworkInstance("DEFAULT").WithID(1).AddNextHop(1, 1).AddNextHop(2, 2).WithBackupNHG(7)},
		{"nhg1 again", fluent.NextHopGroupEntry().WithNetworkInstance("DEFAULT").WithID(1).AddNextHop(3, 3)},
		{"v4", fluent.IPv4Entry().WithNetworkInstance("DEFAULT").WithPrefix("1.0.0.0/8").WithNextHopGroup(1).WithMetadata([]byte{1, 2, 3, 4, 5, 6, 7, 8}).WithNextHopGroupNetworkInstance("DEFAULT")},
		{"v4 again", fluent.IPv4Entry().WithNetworkInstance("DEFAULT").WithPrefix("1.0.0.0/8").WithNextHopGroup(1)},
		{"v6", fluent.IPv6Entry().WithNetworkInstance("DEFAULT").WithPrefix("2001:db8::/32").WithNextHopGroup(1).WithMetadata([]byte{1, 2, 3, 4, 5, 6, 7, 8}).WithNextHopGroupNetworkInstance("DEFAULT")},
		{"v6 again", fluent.IPv6Entry().WithNetworkInstance("DEFAULT").WithPrefix("2001:db8::/32").WithNextHopGroup(1)},
		{"mpls", fluent.LabelEntry().WithNetworkInstance("DEFAULT").WithLabel(100).WithNextHopGroup(1).WithPoppedLabelStack(100, 200).WithNextHopGroupNetworkInstance("DEFAULT")},
		{"mpls again", fluent.LabelEntry().WithNetworkInstance("DEFAULT").WithLabel(100).WithNextHopGroup(1)},
	}
	r := rib.New("DEFAULT")
	r.AddNetworkInstance("VRF-A")
	want := map[string]*spb.AFTEntry{}
	for i, t := range tests {
		op, err := t.e.OpProto()
		if err != nil {
			return err
		}
		op.Id = uint64(i + 1)
		op.Op = spb.AFTOperation_ADD
		oks, fails, err := r.AddEntry("DEFAULT", op)
		fmt.Printf("== %s: oks=%d fails=%d err=%v\n", t.name, len(oks), len(fails), err)
		if len(fails) > 0 {
			fmt.Printf("   fail: %s\n", fails[0].Error)
		}
		if len(oks) > 0 {
			w, _ := t.e.EntryProto()
			want[entryKey(w)] = w
		}
	}
	h, _ := r.NetworkInstanceRIB("DEFAULT")
	msgCh := make(chan *spb.GetResponse, 1000)
	stop := make(chan struct{})
	gerr := h.GetRIB(map[spb.AFTType]bool{spb.AFTType_ALL: true}, msgCh, stop)
	close(msgCh)
	if gerr != nil {
		fmt.Printf("   GET ERROR: %v\n", gerr)
	}
	var resps []*spb.GetResponse
	for m := range msgCh {
		resps = append(resps, m)
		for _, e := range m.Entry {
			w := want[entryKey(e)]
			if w == nil {
				fmt.Printf("   UNEXPECTED %s\n", prototext.MarshalOptions{}.Format(e))
				continue
			}
			if !proto.Equal(w, e) {
				fmt.Printf("   DIFF\n   want %s\n   got  %s\n", prototext.MarshalOptions{}.Format(w), prototext.MarshalOptions{}.Format(e))
			}
			delete(want, entryKey(e))
		}
	}
	for k := range want {
		fmt.Printf("   MISSING %s\n", k)
	}
	nr, err := rib.FromGetResponses("DEFAULT", resps)
	if err != nil {
		fmt.Printf("   REBUILD ERROR %v\n", err)
	} else {
		a, _ := r.RIBContents()
		b, _ := nr.RIBContents()
		for n := range a {
			d, err := ygot.Diff(a[n], b[n])
			fmt.Printf("rebuild diff %s: %v %v\n", n, d, err)
		}
	}
	return nil
}

func entryKey(e *spb.AFTEntry) string {
	switch v := e.GetEntry().(type) {
	case *spb.AFTEntry_Ipv4:
		return e.GetNetworkInstance() + "|v4|" + v.Ipv4.GetPrefix()
	case *spb.AFTEntry_Ipv6:
		return e.GetNetworkInstance() + "|v6|" + v.Ipv6.GetPrefix()
	case *spb.AFTEntry_Mpls:
		return fmt.Sprintf("%s|mpls|%d", e.GetNetworkInstance(), v.Mpls.GetLabelUint64())
	case *spb.AFTEntry_NextHopGroup:
		return fmt.Sprintf("%s|nhg|%d", e.GetNetworkInstance(), v.NextHopGroup.GetId())
	case *spb.AFTEntry_NextHop:
		return fmt.Sprintf("%s|nh|%d", e.GetNetworkInstance(), v.NextHop.GetIndex())
	}
	return "?"
}
