package main

// The builder field inventory (the same rows as coq/theories/Codec/Fields.v builder_fields), the
// inventory of the five entry messages obtained by reflection over the linked protobuf
// descriptors (compared by coqc with Generated/CodecTable.v on every run), the walker that turns an
// AFT entry protobuf into the model's abstract payload, and the canonicaliser used by the oracle.

import (
	"fmt"
	"sort"
	"strings"

	"verifharness/drv"

	"google.golang.org/protobuf/proto"
	"google.golang.org/protobuf/reflect/protoreflect"
	"google.golang.org/protobuf/types/descriptorpb"

	aftpb "github.com/openconfig/gribi/v1/proto/gribi_aft"
	spb "github.com/openconfig/gribi/v1/proto/service"
	yextpb "github.com/openconfig/ygot/proto/yext"
)

// builderFields: inventory code -> schema path (Codec/Fields.v builder_fields).
var builderFields = map[uint64]string{
	1:  "/afts/ipv4-unicast/ipv4-entry/state/next-hop-group",
	2:  "/afts/ipv4-unicast/ipv4-entry/state/next-hop-group-network-instance",
	3:  "/afts/ipv4-unicast/ipv4-entry/state/entry-metadata",
	4:  "/afts/ipv6-unicast/ipv6-entry/state/next-hop-group",
	5:  "/afts/ipv6-unicast/ipv6-entry/state/next-hop-group-network-instance",
	6:  "/afts/ipv6-unicast/ipv6-entry/state/entry-metadata",
	7:  "/afts/mpls/label-entry/state/next-hop-group",
	8:  "/afts/mpls/label-entry/state/next-hop-group-network-instance",
	9:  "/afts/mpls/label-entry/state/popped-mpls-label-stack",
	10: "/afts/next-hop-groups/next-hop-group/state/backup-next-hop-group",
	11: "/afts/next-hop-groups/next-hop-group/next-hops/next-hop",
	12: "/afts/next-hop-groups/next-hop-group/next-hops/next-hop/state/weight",
	13: "/afts/next-hop-groups/next-hop-group/next-hops/next-hop/state/index",
	20: "/afts/next-hops/next-hop/state/ip-address",
	21: "/afts/next-hops/next-hop/interface-ref/state/interface",
	22: "/afts/next-hops/next-hop/interface-ref/state/subinterface",
	23: "/afts/next-hops/next-hop/state/mac-address",
	24: "/afts/next-hops/next-hop/ip-in-ip/state/src-ip",
	25: "/afts/next-hops/next-hop/ip-in-ip/state/dst-ip",
	26: "/afts/next-hops/next-hop/state/network-instance",
	27: "/afts/next-hops/next-hop/state/pop-top-label",
	28: "/afts/next-hops/next-hop/state/pushed-mpls-label-stack",
	29: "/afts/next-hops/next-hop/state/decapsulate-header",
	30: "/afts/next-hops/next-hop/state/encapsulate-header",
	31: "/afts/next-hops/next-hop/encap-headers/encap-header",
	32: "/afts/next-hops/next-hop/encap-headers/encap-header/state/type",
	33: "/afts/next-hops/next-hop/encap-headers/encap-header/mpls/state/mpls-label-stack",
	34: "/afts/next-hops/next-hop/encap-headers/encap-header/udp-v6/state/dscp",
	35: "/afts/next-hops/next-hop/encap-headers/encap-header/udp-v6/state/dst-ip",
	36: "/afts/next-hops/next-hop/encap-headers/encap-header/udp-v6/state/dst-udp-port",
	37: "/afts/next-hops/next-hop/encap-headers/encap-header/udp-v6/state/ip-ttl",
	38: "/afts/next-hops/next-hop/encap-headers/encap-header/udp-v6/state/src-ip",
	39: "/afts/next-hops/next-hop/encap-headers/encap-header/udp-v6/state/src-udp-port",
	40: "/afts/next-hops/next-hop/encap-headers/encap-header/state/index",
	41: "/afts/next-hops/next-hop/interface-ref",
	42: "/afts/next-hops/next-hop/ip-in-ip",
	43: "/afts/next-hops/next-hop/encap-headers/encap-header/mpls",
	44: "/afts/next-hops/next-hop/encap-headers/encap-header/udp-v6",
}

var fidByPath = func() map[string]uint64 {
	m := map[string]uint64{}
	for c, p := range builderFields {
		m[p] = c
	}
	return m
}()

// codes whose string value is a network instance name the RIB model looks at (printed as the
// instance code, not as a hash)
var niFields = map[uint64]bool{2: true, 5: true, 8: true}

func schemaPath(fd protoreflect.FieldDescriptor) string {
	po, ok := fd.Options().(*descriptorpb.FieldOptions)
	if !ok || po == nil {
		return ""
	}
	ex, _ := proto.GetExtension(po, yextpb.E_Schemapath).(string)
	return strings.Split(ex, "|")[0]
}

func fieldOptBool(fd protoreflect.FieldDescriptor, x protoreflect.ExtensionType) bool {
	po, ok := fd.Options().(*descriptorpb.FieldOptions)
	if !ok || po == nil {
		return false
	}
	b, _ := proto.GetExtension(po, x).(bool)
	return b
}

func isWrapperMsg(md protoreflect.MessageDescriptor) bool {
	return strings.HasPrefix(string(md.FullName()), "ywrapper.")
}

type invRow struct{ path, kind string }

func invWalk(md protoreflect.MessageDescriptor, inKey bool, rows *[]invRow) {
	fds := md.Fields()
	for i := 0; i < fds.Len(); i++ {
		fd := fds.Get(i)
		p := schemaPath(fd)
		isMsg := fd.Kind() == protoreflect.MessageKind
		switch {
		case inKey && !isMsg:
			*rows = append(*rows, invRow{p, "KKey"})
		case isMsg && isWrapperMsg(fd.Message()):
			k := map[string]string{"UintValue": "KUint", "StringValue": "KString", "BytesValue": "KBytes", "BoolValue": "KBool",
				"IntValue": "KInt", "Decimal64Value": "KDecimal64"}[string(fd.Message().Name())]
			if k == "" {
				k = "KOther"
			}
			if fd.IsList() {
				k = "KLeafList"
			}
			*rows = append(*rows, invRow{p, k})
		case fd.Kind() == protoreflect.EnumKind:
			*rows = append(*rows, invRow{p, "KEnum"})
		case fd.IsList() && fieldOptBool(fd, yextpb.E_Leaflistunion):
			*rows = append(*rows, invRow{p, "KLeafListUnion"})
		case fd.IsList() && fieldOptBool(fd, yextpb.E_Leaflist):
			*rows = append(*rows, invRow{p, "KLeafList"})
		case !isMsg && fd.ContainingOneof() != nil:
			*rows = append(*rows, invRow{p, "KScalarUnion"})
		case !isMsg:
			*rows = append(*rows, invRow{p, "KScalar"})
		case fd.IsList():
			*rows = append(*rows, invRow{p, "KKeyedList"})
			invWalk(fd.Message(), true, rows)
		case inKey:
			invWalk(fd.Message(), false, rows)
		default:
			*rows = append(*rows, invRow{p, "KContainer"})
			invWalk(fd.Message(), false, rows)
		}
	}
}

// inventory reflects over the descriptors of the five entry messages linked into this binary.
func inventory() []invRow {
	rows := []invRow{}
	for _, m := range []proto.Message{&aftpb.Afts_Ipv4EntryKey{}, &aftpb.Afts_Ipv6EntryKey{}, &aftpb.Afts_LabelEntryKey{},
		&aftpb.Afts_NextHopGroupKey{}, &aftpb.Afts_NextHopKey{}} {
		invWalk(m.ProtoReflect().Descriptor(), true, &rows)
	}
	sort.Slice(rows, func(i, j int) bool {
		if rows[i].path != rows[j].path {
			return rows[i].path < rows[j].path
		}
		return rows[i].kind < rows[j].kind
	})
	uniq := rows[:0]
	for i, r := range rows {
		if i == 0 || r != rows[i-1] {
			uniq = append(uniq, r)
		}
	}
	return uniq
}

func inventoryCoq() string {
	rs := []string{}
	for _, r := range inventory() {
		rs = append(rs, fmt.Sprintf("(%q, %s)", r.path, r.kind))
	}
	return "[" + strings.Join(rs, ";\n  ") + "]"
}

// checkBuilderTable makes sure every builder path exists in the linked descriptors.
func checkBuilderTable() error {
	have := map[string]bool{}
	for _, r := range inventory() {
		have[r.path] = true
	}
	for c, p := range builderFields {
		if !have[p] {
			return fmt.Errorf("builder field %d: path %s is not in the protobuf descriptors", c, p)
		}
	}
	return nil
}

// ---------------------------------------------------------------------------- abstract payload

// value codes of strings, byte strings and label stacks: an injective numbering in order of first
// appearance in the run (the model only compares value codes for equality)
var interned = map[string]uint64{}

func hashVal(tag string, b []byte) uint64 {
	k := tag + string(b)
	if c, ok := interned[k]; ok {
		return c
	}
	c := uint64(1000 + len(interned))
	interned[k] = c
	return c
}

// FV is one item of the abstract payload.
type FV struct {
	Code uint64 // 100 * list key + inventory code; 99 = not a builder field
	Val  uint64
	Path string
}

func unionListText(l protoreflect.List) string {
	parts := []string{}
	for i := 0; i < l.Len(); i++ {
		m := l.Get(i).Message()
		s := "unset"
		m.Range(func(fd protoreflect.FieldDescriptor, v protoreflect.Value) bool {
			s = fmt.Sprintf("%s=%v", fd.Name()[strings.LastIndex(string(fd.Name()), "_")+1:], v.Interface())
			return true
		})
		parts = append(parts, s)
	}
	return strings.Join(parts, ",")
}

func absWalk(m protoreflect.Message, key uint64, out *[]FV) {
	m.Range(func(fd protoreflect.FieldDescriptor, v protoreflect.Value) bool {
		p := schemaPath(fd)
		fid, ok := fidByPath[p]
		if !ok {
			fid = 99
		}
		code := 100*key + fid
		isMsg := fd.Kind() == protoreflect.MessageKind
		switch {
		case isMsg && !fd.IsList() && isWrapperMsg(fd.Message()):
			inner := v.Message().Get(fd.Message().Fields().ByName("value"))
			var val uint64
			switch x := inner.Interface().(type) {
			case uint64:
				val = x
			case int64:
				val = uint64(x)
			case bool:
				if x {
					val = 1
				}
			case string:
				if niFields[fid] {
					val = uint64(drv.NICode(x))
				} else {
					val = hashVal("s:", []byte(x))
				}
			case []byte:
				val = hashVal("b:", x)
			default:
				val = hashVal("?:", []byte(fmt.Sprint(x)))
			}
			*out = append(*out, FV{code, val, p})
		case fd.Kind() == protoreflect.EnumKind && !fd.IsList():
			*out = append(*out, FV{code, uint64(v.Enum()), p})
		case fd.IsList() && fieldOptBool(fd, yextpb.E_Leaflistunion):
			if v.List().Len() > 0 {
				*out = append(*out, FV{code, hashVal("l:", []byte(unionListText(v.List()))), p})
			}
		case fd.IsList() && isMsg:
			l := v.List()
			for i := 0; i < l.Len(); i++ {
				em := l.Get(i).Message()
				var k uint64
				if kf := em.Descriptor().Fields().ByNumber(1); kf != nil && kf.Kind() == protoreflect.Uint64Kind {
					k = em.Get(kf).Uint()
				}
				if mf := em.Descriptor().Fields().ByNumber(2); mf != nil && mf.Kind() == protoreflect.MessageKind && em.Has(mf) {
					absWalk(em.Get(mf).Message(), k, out)
				}
			}
		case isMsg:
			absWalk(v.Message(), key, out)
		default:
			*out = append(*out, FV{code, hashVal("?:", []byte(fmt.Sprint(v.Interface()))), p})
		}
		return true
	})
}

// Abs is an entry as the model sees it.
type Abs struct {
	Kind  string // v4 v6 mpls nhg nh
	NI    int
	Key   uint64
	Nil   bool // inner message absent
	NHG   uint64
	NHGNI uint64
	NHs   [][2]uint64
	Bk    uint64
	X     []FV
}

// absOf reads (kind, key, inner message) off an AFTEntry / AFTOperation entry.
func absOf(ni string, entry any) Abs {
	a := Abs{NI: drv.NICode(ni)}
	var inner proto.Message
	switch v := entry.(type) {
	case *aftpb.Afts_Ipv4EntryKey:
		a.Kind = "v4"
		a.Key = v4Code(v.GetPrefix())
		if v.GetIpv4Entry() != nil {
			inner = v.GetIpv4Entry()
		}
	case *aftpb.Afts_Ipv6EntryKey:
		a.Kind = "v6"
		a.Key = v6Code(v.GetPrefix())
		if v.GetIpv6Entry() != nil {
			inner = v.GetIpv6Entry()
		}
	case *aftpb.Afts_LabelEntryKey:
		a.Kind = "mpls"
		a.Key = v.GetLabelUint64()
		if v.GetLabelEntry() != nil {
			inner = v.GetLabelEntry()
		}
	case *aftpb.Afts_NextHopGroupKey:
		a.Kind = "nhg"
		a.Key = v.GetId()
		if g := v.GetNextHopGroup(); g != nil {
			inner = g
			for _, nh := range g.GetNextHop() {
				a.NHs = append(a.NHs, [2]uint64{nh.GetIndex(), nh.GetNextHop().GetWeight().GetValue()})
			}
		}
	case *aftpb.Afts_NextHopKey:
		a.Kind = "nh"
		a.Key = v.GetIndex()
		if v.GetNextHop() != nil {
			inner = v.GetNextHop()
		}
	}
	if inner == nil {
		a.Nil = true
		return a
	}
	all := []FV{}
	absWalk(inner.ProtoReflect(), 0, &all)
	for _, f := range all {
		switch f.Code {
		case 1, 4, 7:
			a.NHG = f.Val
		case 2, 5, 8:
			a.NHGNI = f.Val
		case 10:
			a.Bk = f.Val
		default:
			if f.Code%100 == 12 { // member weights: in NHs
				continue
			}
			a.X = append(a.X, f)
		}
	}
	sort.Slice(a.X, func(i, j int) bool { return a.X[i].Code < a.X[j].Code })
	return a
}

func absOfEntry(e *spb.AFTEntry) Abs {
	switch v := e.GetEntry().(type) {
	case *spb.AFTEntry_Ipv4:
		return absOf(e.GetNetworkInstance(), v.Ipv4)
	case *spb.AFTEntry_Ipv6:
		return absOf(e.GetNetworkInstance(), v.Ipv6)
	case *spb.AFTEntry_Mpls:
		return absOf(e.GetNetworkInstance(), v.Mpls)
	case *spb.AFTEntry_NextHopGroup:
		return absOf(e.GetNetworkInstance(), v.NextHopGroup)
	case *spb.AFTEntry_NextHop:
		return absOf(e.GetNetworkInstance(), v.NextHop)
	}
	return Abs{Kind: "?"}
}

func xCoq(x []FV) string {
	s := []string{}
	for _, f := range x {
		s = append(s, fmt.Sprintf("(%d, %d)", f.Code, f.Val))
	}
	return drv.CoqList(s)
}

func pairsCoq(x [][2]uint64) string {
	s := []string{}
	for _, p := range x {
		s = append(s, fmt.Sprintf("(%d, %d)", p[0], p[1]))
	}
	return drv.CoqList(s)
}

// PayloadCoq prints the model payload; bad = a value the schema rejects (the harness's own rule).
func (a Abs) PayloadCoq(bad bool) string {
	b := "false"
	if bad {
		b = "true"
	}
	switch a.Kind {
	case "v4", "v6", "mpls":
		return fmt.Sprintf("(Build_top %d %d %s %s)", a.NHG, a.NHGNI, xCoq(a.X), b)
	case "nhg":
		return fmt.Sprintf("(Build_grp %s %d %s %s)", pairsCoq(a.NHs), a.Bk, xCoq(a.X), b)
	}
	return fmt.Sprintf("(Build_nhp %s %s)", xCoq(a.X), b)
}

// EntryCoq prints the model's entry of an operation.
func (a Abs) EntryCoq(bad bool) string {
	pl := "None"
	if !a.Nil {
		pl = "(Some " + a.PayloadCoq(bad) + ")"
	}
	switch a.Kind {
	case "v4":
		return fmt.Sprintf("ETop T4 %d true %s", a.Key, pl)
	case "v6":
		return fmt.Sprintf("ETop T6 %d true %s", a.Key, pl)
	case "mpls":
		return fmt.Sprintf("ETop TL %d true %s", a.Key, pl)
	case "nhg":
		return fmt.Sprintf("EGrp %d %s", a.Key, pl)
	case "nh":
		return fmt.Sprintf("ENh %d %s", a.Key, pl)
	}
	return "ENone"
}

// GentryCoq prints a Get result entry as the model's gentry.
func (a Abs) GentryCoq() string {
	if a.Nil {
		// an entry without inner message: print an empty payload
		a.Nil = false
	}
	switch a.Kind {
	case "v4":
		return fmt.Sprintf("GTop %d T4 %d %s", a.NI, a.Key, a.PayloadCoq(false))
	case "v6":
		return fmt.Sprintf("GTop %d T6 %d %s", a.NI, a.Key, a.PayloadCoq(false))
	case "mpls":
		return fmt.Sprintf("GTop %d TL %d %s", a.NI, a.Key, a.PayloadCoq(false))
	case "nhg":
		sort.Slice(a.NHs, func(i, j int) bool { return a.NHs[i][0] < a.NHs[j][0] })
		return fmt.Sprintf("GGrp %d %d %s", a.NI, a.Key, a.PayloadCoq(false))
	case "nh":
		return fmt.Sprintf("GNh %d %d %s", a.NI, a.Key, a.PayloadCoq(false))
	}
	return "GNh 999 999 (mk_nh [])"
}

// ---------------------------------------------------------------------------- keys

// V4 / V6 prefixes by key code (all syntactically valid; code 4 has host bits set).
var (
	v4Keys = map[uint64]string{1: "1.0.0.0/8", 2: "2.0.0.0/8", 3: "3.3.3.0/24", 4: "10.1.1.1/8"}
	v6Keys = map[uint64]string{1: "2001:db8::/32", 2: "2001:db8:1::/48", 3: "::/0", 4: "2001:DB8:2::1/64"}
)

func v4Code(p string) uint64 {
	for k, v := range v4Keys {
		if v == p {
			return k
		}
	}
	return 999
}

func v6Code(p string) uint64 {
	for k, v := range v6Keys {
		if v == p {
			return k
		}
	}
	return 999
}

// entryKey identifies an entry: instance | kind | key.
func entryKey(e *spb.AFTEntry) string {
	switch v := e.GetEntry().(type) {
	case *spb.AFTEntry_Ipv4:
		return e.GetNetworkInstance() + "|v4|" + v.Ipv4.GetPrefix()
	case *spb.AFTEntry_Ipv6:
		return e.GetNetworkInstance() + "|v6|" + v.Ipv6.GetPrefix()
	case *spb.AFTEntry_Mpls:
		return fmt.Sprintf("%s|mpls|%d", e.GetNetworkInstance(), v.Mpls.GetLabelUint64())
	case *spb.AFTEntry_NextHopGroup:
		return fmt.Sprintf("%s|nhg|%d", e.GetNetworkInstance(), v.NextHopGroup.GetId())
	case *spb.AFTEntry_NextHop:
		return fmt.Sprintf("%s|nh|%d", e.GetNetworkInstance(), v.NextHop.GetIndex())
	}
	return "?"
}

func kindOfKey(k string) string { return strings.Split(k, "|")[1] }
func niOfKey(k string) string   { return strings.Split(k, "|")[0] }

// ---------------------------------------------------------------------------- canonical protobufs

func isKeyedElem(md protoreflect.MessageDescriptor) bool {
	k, m := md.Fields().ByNumber(1), md.Fields().ByNumber(2)
	return k != nil && m != nil && k.Kind() != protoreflect.MessageKind && m.Kind() == protoreflect.MessageKind && md.Fields().Len() == 2
}

func populated(m protoreflect.Message) bool {
	n := 0
	m.Range(func(protoreflect.FieldDescriptor, protoreflect.Value) bool { n++; return false })
	return n > 0
}

// canonMsg sorts keyed lists by key and removes empty containers (an embedded non-wrapper message
// without any populated field carries no leaf), in place.
func canonMsg(m protoreflect.Message) {
	type fdv struct {
		fd protoreflect.FieldDescriptor
		v  protoreflect.Value
	}
	var fs []fdv
	m.Range(func(fd protoreflect.FieldDescriptor, v protoreflect.Value) bool {
		fs = append(fs, fdv{fd, v})
		return true
	})
	for _, f := range fs {
		if f.fd.Kind() != protoreflect.MessageKind {
			continue
		}
		if f.fd.IsList() {
			l := f.v.List()
			elems := []protoreflect.Value{}
			for i := 0; i < l.Len(); i++ {
				canonMsg(l.Get(i).Message())
				elems = append(elems, l.Get(i))
			}
			if isKeyedElem(f.fd.Message()) {
				kf := f.fd.Message().Fields().ByNumber(1)
				sort.SliceStable(elems, func(i, j int) bool {
					a, b := elems[i].Message().Get(kf), elems[j].Message().Get(kf)
					if kf.Kind() == protoreflect.Uint64Kind {
						return a.Uint() < b.Uint()
					}
					return a.String() < b.String()
				})
				for i, e := range elems {
					l.Set(i, e)
				}
			}
			continue
		}
		if isWrapperMsg(f.fd.Message()) {
			continue
		}
		sub := f.v.Message()
		canonMsg(sub)
		if !populated(sub) && f.fd.ContainingOneof() == nil && !(isKeyedElem(m.Descriptor()) && f.fd.Number() == 2) {
			m.Clear(f.fd)
		}
	}
}

func canonEntry(e *spb.AFTEntry) *spb.AFTEntry {
	c := proto.Clone(e).(*spb.AFTEntry)
	canonMsg(c.ProtoReflect())
	return c
}

// diffPaths names the leaves in which two entries differ.
func diffPaths(want, got *spb.AFTEntry) string {
	w, g := absOfEntry(want), absOfEntry(got)
	flat := func(a Abs) map[string]uint64 {
		m := map[string]uint64{}
		for _, f := range a.X {
			m[fmt.Sprintf("%s[%d]", f.Path, f.Code/100)] = f.Val
		}
		if a.NHG != 0 {
			m["next-hop-group"] = a.NHG
		}
		if a.NHGNI != 0 {
			m["next-hop-group-network-instance"] = a.NHGNI
		}
		if a.Bk != 0 {
			m["backup-next-hop-group"] = a.Bk
		}
		for _, nh := range a.NHs {
			m[fmt.Sprintf("next-hop[%d]/weight", nh[0])] = nh[1] + 1
		}
		return m
	}
	wm, gm := flat(w), flat(g)
	var dropped, added, changed []string
	for p, v := range wm {
		if gv, ok := gm[p]; !ok {
			dropped = append(dropped, p)
		} else if gv != v {
			changed = append(changed, p)
		}
	}
	for p := range gm {
		if _, ok := wm[p]; !ok {
			added = append(added, p)
		}
	}
	sort.Strings(dropped)
	sort.Strings(added)
	sort.Strings(changed)
	strip := func(l []string) string {
		for i := range l {
			l[i] = strings.TrimSuffix(l[i], "[0]")
		}
		return strings.Join(l, ",")
	}
	parts := []string{}
	if len(dropped) > 0 {
		parts = append(parts, "dropped "+strip(dropped))
	}
	if len(added) > 0 {
		parts = append(parts, "added "+strip(added))
	}
	if len(changed) > 0 {
		parts = append(parts, "changed "+strip(changed))
	}
	if len(parts) == 0 {
		return "protobufs differ outside the leaf values (presence / order)"
	}
	return strings.Join(parts, "; ")
}
