package main

import (
	"context"
	"fmt"
	"runtime"
	"sync"
	"testing"
)

// capTB is a testing.TB that records the outcome of one compliance test instead of failing a Go
// test. It embeds the interface (nil) to satisfy its unexported method and overrides everything the
// compliance, fluent and chk packages call. Fatal / Skip end the calling goroutine with
// runtime.Goexit, as the testing package does (deferred clean-up of the test body still runs).
type capTB struct {
	testing.TB
	name string

	mu       sync.Mutex
	fatal    bool
	errors   int
	skipped  bool
	msgs     []string
	cleanups []func()
}

func (c *capTB) note(kind string, s string) {
	c.mu.Lock()
	defer c.mu.Unlock()
	if len(c.msgs) < 6 {
		if len(s) > 400 {
			s = s[:400] + "..."
		}
		c.msgs = append(c.msgs, kind+": "+s)
	}
}
func (c *capTB) setFatal() { c.mu.Lock(); c.fatal = true; c.mu.Unlock() }
func (c *capTB) addErr()   { c.mu.Lock(); c.errors++; c.mu.Unlock() }
func (c *capTB) setSkip()  { c.mu.Lock(); c.skipped = true; c.mu.Unlock() }

func (c *capTB) Helper()                   {}
func (c *capTB) Name() string              { return c.name }
func (c *capTB) Context() context.Context  { return context.Background() }
func (c *capTB) Log(...any)                {}
func (c *capTB) Logf(string, ...any)       {}
func (c *capTB) Error(a ...any)            { c.addErr(); c.note("error", fmt.Sprint(a...)) }
func (c *capTB) Errorf(f string, a ...any) { c.addErr(); c.note("error", fmt.Sprintf(f, a...)) }
func (c *capTB) Fail()                     { c.addErr() }
func (c *capTB) Failed() bool {
	c.mu.Lock()
	defer c.mu.Unlock()
	return c.fatal || c.errors > 0
}
func (c *capTB) Fatal(a ...any) { c.setFatal(); c.note("fatal", fmt.Sprint(a...)); runtime.Goexit() }
func (c *capTB) Fatalf(f string, a ...any) {
	c.setFatal()
	c.note("fatal", fmt.Sprintf(f, a...))
	runtime.Goexit()
}
func (c *capTB) FailNow()      { c.setFatal(); runtime.Goexit() }
func (c *capTB) Skip(a ...any) { c.setSkip(); c.note("skip", fmt.Sprint(a...)); runtime.Goexit() }
func (c *capTB) Skipf(f string, a ...any) {
	c.setSkip()
	c.note("skip", fmt.Sprintf(f, a...))
	runtime.Goexit()
}
func (c *capTB) SkipNow() { c.setSkip(); runtime.Goexit() }
func (c *capTB) Skipped() bool {
	c.mu.Lock()
	defer c.mu.Unlock()
	return c.skipped
}
func (c *capTB) Cleanup(f func())      { c.mu.Lock(); c.cleanups = append(c.cleanups, f); c.mu.Unlock() }
func (c *capTB) Setenv(string, string) {}
func (c *capTB) TempDir() string       { return "" }

// runCleanups runs the registered clean-up functions, last first.
func (c *capTB) runCleanups() {
	c.mu.Lock()
	cs := c.cleanups
	c.cleanups = nil
	c.mu.Unlock()
	for i := len(cs) - 1; i >= 0; i-- {
		func() {
			defer func() { recover() }()
			cs[i]()
		}()
	}
}

func (c *capTB) verdict() string {
	c.mu.Lock()
	defer c.mu.Unlock()
	switch {
	case c.fatal || c.errors > 0:
		return "fail"
	case c.skipped:
		return "skip"
	}
	return "pass"
}
