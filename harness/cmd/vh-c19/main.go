// Command vh-c19 runs the real compliance suite of /repo against long-lived in-memory servers in
// random orders and configurations, and against a catalogue of single-requirement faulty servers.
package main

import "verifharness/drv"

func main() { drv.Main(map[string]drv.Cmd{"c19": run}) }
