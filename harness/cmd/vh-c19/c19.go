package main

// C19: the real compliance.TestSuite against long-lived reference servers in random orders and
// configurations (oracle: every non-skipped test passes, and every test leaves the servers reset),
// and against the fault catalogue (oracle: the tests written for the broken requirement fail).

import (
	"fmt"
	"os"
	"os/exec"
	"path/filepath"
	"runtime"
	"sort"
	"strings"
	"sync"
	"testing"
	"time"

	"github.com/openconfig/gribigo/compliance"
	"github.com/openconfig/gribigo/fluent"
	"github.com/openconfig/gribigo/server"

	"verifharness/drv"
)

// Case is one run. Kind "suite": the tests of Order run one after the other on one long-lived pair
// of servers. Kind "cells": every test of Order runs against its own fresh pair of servers.
type Case struct {
	Kind   string   `json:"kind"`
	Server string   `json:"server"` // "reference" or a fault kind
	Config Config   `json:"config"`
	Order  []string `json:"order"` // ShortNames of compliance.TestSuite
	Seed   int64    `json:"seed"`
}

// TestResult is what one execution of one compliance test produced.
type TestResult struct {
	Test     string   `json:"test"`
	Verdict  string   `json:"verdict"` // pass | fail | skip
	Messages []string `json:"messages,omitempty"`
	Millis   int64    `json:"ms"`
	Timeout  bool     `json:"timeout,omitempty"`
	// Unrepeated: how many earlier attempts of this test (same start) outlasted the watchdog while this one did not
	Unrepeated int      `json:"unrepeated,omitempty"`
	NotReset   []string `json:"not_reset,omitempty"`
	IDNotes    []string `json:"id_notes,omitempty"`
}

// CaseResult is the outcome of a case.
type CaseResult struct {
	Case    Case         `json:"case"`
	Results []TestResult `json:"results"`
	Millis  int64        `json:"ms"`
}

var configs = []Config{
	{Base: 1, Dflt: server.DefaultNetworkInstanceName, Vrf: "NON-DEFAULT-VRF"},
	{Base: 1000, Dflt: server.DefaultNetworkInstanceName, Vrf: "vrf-b"},
	{Base: 1 << 62, Dflt: "TE-DEFAULT", Vrf: "CUST.1"},
}

// designated names, for each fault, the compliance tests written for the broken requirement: they
// must fail against the faulty server.
var designated = map[string][]string{
	"omit_fib": {
		"Add IPv4 entry that can be programmed on the server - with FIB ACK",
		"Delete NH entry successfully - FIB ACK", // was declared with InstalledInRIB and passed against omit_fib until /repo 1e3d7ea
	},
	"nonprimary": {
		"Election - Sending same election ID from two clients",
		"Election - Unannounced master operations are rejected",
		"Election - Incrementing election ID is honoured, and older IDs are rejected",
	},
	"fail_idem_delete": {
		"Idempotent Delete entry - RIB ACK",
		"Idempotent Delete entry - FIB ACK",
	},
	"stale_get": {
		"Get for installed NH - RIB ACK",
		"Get for installed NHG - RIB ACK",
		"Get for installed IPv4 Entry - RIB ACK",
		"Get for installed chain of entries - RIB ACK",
		"Election - Active entries after new master connects",
		"Flush from non-elected master returns error",
	},
	"ignore_flush": {
		"Flush of all entries in default NI by elected master",
		"Flush from client overriding election is honoured",
		"Flush to specific network instance is honoured",
		// "Flush all network instances" skips itself in the pinned suite
	},
	"misreport_elect": {
		"Modify RPC Connection with Election ID",
		"Election - Matching parameters for two clients in election",
		"Election - Lower election ID from new client",
		"Election - Decrementing election ID is ignored",
		"Election - Sending same election ID from two clients",
	},
	"accept_repeated_params": {
		"Modify RPC Connection with repeated SessionParameters",
	},
	// the same requirements broken in a second way (per recipient / per kind of operation / per table / per scope)
	"echo_own_elect": {
		"Election - Lower election ID from new client", // the only test that looks at the id reported to a session that did not win
	},
	"misreport_elect_nonprimary_only": {
		"Election - Lower election ID from new client",
	},
	"omit_fib_for_deletes_only": {
		"Delete NHG entry successfully - FIB ACK",
	},
	"stale_get_one_table_only": {
		"Get for installed IPv4 Entry - RIB ACK",
		"Get for installed chain of entries - RIB ACK",
		"Election - Active entries after new master connects",
		"Flush to specific network instance is honoured",
	},
	"ignore_flush_named_only": {
		"Flush to specific network instance is honoured",
	},
	"old_primary_kept_on_equal_id": {
		"Election - Sending same election ID from two clients",
	},
	// Get without one table: the tests that ask for an entry of that table, in particular the chain tests, which
	// ask for group 1 AND next-hop 1 (equal numbers in different tables)
	"stale_get_nh_table": {
		"Get for installed NH - RIB ACK",
		"Get for installed chain of entries - RIB ACK",
		"Get for installed chain of entries - FIB ACK",
	},
	"stale_get_nhg_table": {
		"Get for installed NHG - RIB ACK",
		"Get for installed chain of entries - RIB ACK",
		"Get for installed chain of entries - FIB ACK",
	},
	// judged by the harness alone (not modelled in Compliance.v).
	// The tests that compare the ModifyRPCErrorDetails reason of a rejected session and get a FailedPrecondition
	// from the reference server. The two other tests that name a reason ("Election - Ensure that election ID is not
	// accepted in ALL_PRIMARY mode", "Election - Ensure client with differing parameters is rejected") connect in
	// ALL_PRIMARY mode, are answered Unimplemented by the reference server and accept that answer whatever its
	// details (chk.AllowUnimplemented): they pass against this fault.
	"wrong_reject_reason": {
		"Modify RPC Connection with invalid persist/redundancy parameters",       // wants UNSUPPORTED_PARAMS (with AllowUnimplemented)
		"Election - Ensure that a client with mismatched parameters is rejected", // wants PARAMS_DIFFER_FROM_OTHER_CLIENTS
	},
	"leak_results_to_other_sessions": {
		"AFTOperation responses must not be sent to other clients",
	},
}

// controls names, for each fault, tests about the same requirement that the fault must NOT break (they are run and
// compared with the model where transcribed; they are not part of the oracle).
var controls = map[string][]string{
	"echo_own_elect":                  {"Election - Sending same election ID from two clients"},
	"misreport_elect_nonprimary_only": {"Election - Decrementing election ID is ignored"},
	"omit_fib_for_deletes_only":       {"Add IPv4 entry that can be programmed on the server - with FIB ACK"},
	"stale_get_one_table_only":        {"Get for installed NH - RIB ACK"},
	"ignore_flush_named_only":         {"Flush of all entries in default NI by elected master"},
	"old_primary_kept_on_equal_id":    {"Election - Unannounced master operations are rejected"},
	"stale_get_nh_table":              {"Get for installed NHG - RIB ACK"},
	"stale_get_nhg_table":             {"Get for installed NH - RIB ACK"},
	// rejected sessions whose test does not look at the reason (IgnoreDetails / the Unimplemented alternative)
	"wrong_reject_reason": {
		"Modify RPC Connection with repeated SessionParameters",
		"Election - Ensure that election ID is not accepted in ALL_PRIMARY mode",
	},
	// single-client tests: no other stream is open, nothing leaks
	"leak_results_to_other_sessions": {
		"Add IPv4 entry that can be programmed on the server - with RIB ACK",
		"Idempotent Delete entry - RIB ACK",
	},
}

// extraDesignated is added in the thorough tier (tests that end in the client's one-minute wait).
var extraDesignated = map[string][]string{
	"omit_fib": {
		"Add next-hop-group entry that can be resolved on the server, no referencing IPv4 entries - with FIB ACK",
		"Idempotent Delete entry - FIB ACK",
		"Get for installed NH - FIB ACK",
		"Implicit replace NH entry - FIB ACK",
	},
	"omit_fib_for_deletes_only": {
		"Idempotent Delete entry - FIB ACK",
		"Delete NH entry successfully - FIB ACK",
	},
	"stale_get_nh_table": {
		"Get for installed NH - FIB ACK",
		"Flush to specific network instance is honoured", // counts the entries of the VRF
	},
	"stale_get_nhg_table": {
		"Get for installed NHG - FIB ACK",
		"Flush to specific network instance is honoured",
	},
}

// transcribed maps the compliance tests that are transcribed as scripts in
// coq/theories/Tools/Compliance.v (test_of) to their number there.
var transcribed = map[string]int{
	"Modify RPC Connection with Election ID":                             1,
	"Modify RPC Connection with repeated SessionParameters":              2,
	"Add IPv4 entry that can be programmed on the server - with RIB ACK": 3,
	"Add IPv4 entry that can be programmed on the server - with FIB ACK": 4,
	"Idempotent Delete entry - RIB ACK":                                  5,
	"Election - Sending same election ID from two clients":               6,
	"Election - Unannounced master operations are rejected":              7,
	"Get for installed NH - RIB ACK":                                     8,
	"Flush of all entries in default NI by elected master":               9,
	"Idempotent Delete entry - FIB ACK":                                  10,
	"Get for installed IPv4 Entry - RIB ACK":                             11,
	"Flush to specific network instance is honoured":                     12,
	"Election - Lower election ID from new client":                       13,
	"Election - Decrementing election ID is ignored":                     14,
	"Get for installed NHG - RIB ACK":                                    15,
	"Get for installed chain of entries - RIB ACK":                       16,
}

func transcribedNames() []string {
	out := make([]string, len(transcribed))
	for n, i := range transcribed {
		out[i-1] = n
	}
	return out
}

func suiteByName() (map[string]*compliance.TestSpec, []string) {
	m := map[string]*compliance.TestSpec{}
	var names []string
	for i, ts := range compliance.TestSuite {
		n := ts.In.ShortName
		if _, dup := m[n]; dup || n == "" {
			n = fmt.Sprintf("%s #%d", n, i)
		}
		m[n] = ts
		names = append(names, n)
	}
	return m, names
}

// runTest executes one compliance test with fresh fluent clients against e. A test that is still
// running after wd has its servers stopped (its streams break, the client gives up) and counts as
// failed; the second result reports a test goroutine that did not end even then.
// forcedOnce: self-test of the harness (VH_C19_TEST_TIMEOUT_ONCE=<test name>: the first run of that test is cut
// short as if it had outlasted the watchdog).
var forcedOnce bool

func runTest(name string, ts *compliance.TestSpec, e *env, wd time.Duration) (TestResult, bool) {
	if !forcedOnce && os.Getenv("VH_C19_TEST_TIMEOUT_ONCE") == name {
		forcedOnce, wd = true, time.Millisecond
	}
	n := e.fwd
	if ts.In.RequiresDisallowedForwardReferences {
		n = e.nofwd
	}
	c := fluent.NewClient()
	c.Connection().WithStub(n.stub)
	sc := fluent.NewClient()
	sc.Connection().WithStub(n.stub)
	tb := &capTB{name: name}
	done := make(chan struct{})
	t0 := time.Now()
	go func() {
		defer close(done)
		defer func() {
			if r := recover(); r != nil {
				tb.setFatal()
				tb.note("panic", fmt.Sprint(r))
			}
		}()
		defer tb.runCleanups()
		defer func() { // what compliance_test.go does after the test function
			defer func() { recover() }()
			c.Stop(tb)
			sc.Stop(tb)
		}()
		var t testing.TB = tb
		ts.In.Fn(c, t, compliance.SecondClient(sc))
	}()
	res := TestResult{Test: name}
	leaked := false
	select {
	case <-done:
	case <-time.After(wd):
		res.Timeout = true
		tb.setFatal()
		tb.note("timeout", fmt.Sprintf("test still running after %v", wd))
		if wd >= time.Minute {
			// where everything stands (kept in the replay file: a test that outlasts minutes is waiting for something)
			buf := make([]byte, 1<<20)
			n := runtime.Stack(buf, true)
			dump := string(buf[:n])
			if len(dump) > 24000 {
				dump = dump[:24000]
			}
			tb.note("goroutines", dump)
		}
		e.stop()
		select {
		case <-done:
		case <-time.After(75 * time.Second):
			leaked = true
		}
	}
	res.Millis = time.Since(t0).Milliseconds()
	res.Verdict = tb.verdict()
	tb.mu.Lock()
	res.Messages = append([]string{}, tb.msgs...)
	tb.mu.Unlock()
	if ts.FatalMsg != "" || ts.ErrorMsg != "" { // a test that is expected to report a failure (none in the pinned suite)
		want := ts.FatalMsg + ts.ErrorMsg
		if res.Verdict == "fail" && strings.Contains(strings.Join(res.Messages, " "), want) {
			res.Verdict = "pass"
		} else if res.Verdict == "pass" {
			res.Verdict = "fail"
		}
	}
	return res, leaked
}

func applyConfig(cfg Config) {
	compliance.SetElectionID(cfg.Base)
	compliance.SetDefaultNetworkInstanceName(cfg.Dflt)
	compliance.SetNonDefaultVRFName(cfg.Vrf)
}

// idNotes compares the election ids a test put on the wire with the ids of the tests before it.
func idNotes(mod, fl []uint64, prevMax uint64) (notes []string, max uint64) {
	max = prevMax
	lowest := uint64(0)
	for _, v := range mod {
		if lowest == 0 || v < lowest {
			lowest = v
		}
		if v > max {
			max = v
		}
	}
	if lowest != 0 && prevMax != 0 && lowest <= prevMax {
		notes = append(notes, fmt.Sprintf("Modify uses election id %d, not above the highest id %d of earlier tests", lowest, prevMax))
	}
	for _, v := range fl {
		if lowest != 0 && v < lowest {
			notes = append(notes, fmt.Sprintf("Flush uses election id %d, below the test's own lowest id %d", v, lowest))
			break
		}
	}
	return
}

func runCase(cs Case, suite map[string]*compliance.TestSpec) (CaseResult, []string) {
	t0 := time.Now()
	out := CaseResult{Case: cs}
	var problems []string
	kind := cs.Server
	if faultNumber(kind) < 0 {
		return out, []string{"unknown server kind " + kind}
	}
	cfg := cs.Config
	if cfg.Base == 0 || cfg.Dflt == "" || cfg.Vrf == "" {
		cfg = configs[0]
	}
	wd := 150 * time.Second // a compliance test waits for at most a minute, twice
	if kind != "reference" {
		wd = 4 * time.Second // a test that the fault leaves waiting for ever counts as failed
	}
	if cs.Kind == "patient" {
		// the test is given the time the suite's own bound allows (each wait of a compliance test is limited to a
		// minute): against a server that withholds a response it must END by itself, with a failure
		wd = 150 * time.Second
	}
	var e *env
	var err error
	var prevMax uint64
	applyConfig(cfg)
	if cs.Kind == "parallel" {
		// every test on its own fresh pair of servers, all at the same time. Safe because the only package-level
		// state the tests share is compliance's election-id counter (atomic; on a fresh server any non-zero id
		// will do) and the instance names (set once above, read only); the same batch is also run against the
		// reference server, where every test must pass.
		type slot struct {
			r      TestResult
			leaked bool
			err    error
			ok     bool
		}
		slots := make([]slot, len(cs.Order))
		var wg sync.WaitGroup
		for i, name := range cs.Order {
			ts, ok := suite[name]
			if !ok {
				continue
			}
			slots[i].ok = true
			wg.Add(1)
			go func(i int, name string, ts *compliance.TestSpec) {
				defer wg.Done()
				pe, err := newEnv(kind, cfg)
				if err != nil {
					slots[i].err = err
					return
				}
				slots[i].r, slots[i].leaked = runTest(name, ts, pe, wd)
				if !slots[i].r.Timeout {
					pe.stop()
				}
			}(i, name, ts)
		}
		wg.Wait()
		for i, sl := range slots {
			switch {
			case !sl.ok:
			case sl.err != nil:
				problems = append(problems, fmt.Sprintf("cannot start servers: %v", sl.err))
			default:
				if sl.leaked {
					problems = append(problems, fmt.Sprintf("HANG: test %q did not end after its servers were stopped", cs.Order[i]))
				}
				if sl.r.Timeout && kind == "reference" && referenceKind() == "reference" {
					problems = append(problems, fmt.Sprintf("HANG: test %q still running after %v on the reference server", cs.Order[i], wd))
				}
				out.Results = append(out.Results, sl.r)
			}
		}
		out.Millis = time.Since(t0).Milliseconds()
		return out, problems
	}
	for _, name := range cs.Order {
		ts, ok := suite[name]
		if !ok {
			continue
		}
		suiteLike := cs.Kind == "suite" || cs.Kind == "first"
		if e == nil || !suiteLike {
			if e != nil {
				e.stop()
			}
			if !suiteLike {
				applyConfig(cfg)
			}
			if e, err = newEnv(kind, cfg); err != nil {
				return out, append(problems, fmt.Sprintf("cannot start servers: %v", err))
			}
			prevMax = 0
		}
		r, leaked := runTest(name, ts, e, wd)
		if r.Timeout && !leaked && kind == "reference" && referenceKind() == "reference" && cs.Kind != "patient" {
			// a verdict is a function of the server's behaviour and of the order of the tests: the same test is given
			// the same start twice more; a wait that does not recur with the same inputs is recorded (statistics and
			// messages of this result), not counted as the test's verdict
			e = nil // the servers of the first attempt are gone
			for try := 0; try < 2 && r.Timeout; try++ {
				applyConfig(cfg)
				e2, err := newEnv(kind, cfg)
				if err != nil {
					break
				}
				r2, leaked2 := runTest(name, ts, e2, wd)
				if r2.Timeout {
					e = nil // runTest has stopped the servers of this attempt
				} else {
					e = e2 // what follows goes on with these servers
				}
				if leaked2 {
					leaked = true
					break
				}
				if r2.Timeout {
					r2.Messages = append(r.Messages, r2.Messages...)
				} else {
					r2.Messages = append(r2.Messages, fmt.Sprintf("note: an earlier run of this test from the same start was still running after %v; it did not recur (attempt %d)", wd, try+2))
					r2.Messages = append(r2.Messages, r.Messages...)
					r2.Unrepeated = r.Unrepeated + 1
				}
				r = r2
			}
		}
		if leaked {
			problems = append(problems, fmt.Sprintf("HANG: test %q did not end after its servers were stopped", name))
		}
		if r.Timeout && cs.Kind == "patient" {
			problems = append(problems, fmt.Sprintf("compliance test %q did not end by itself within %v against server %q, which withholds a response: a test that waits without bound reports nothing [fault-not-flagged]", name, wd, kind))
		}
		if r.Timeout {
			// the servers are gone
			if kind == "reference" && referenceKind() == "reference" {
				problems = append(problems, fmt.Sprintf("HANG: test %q still running after %v on the reference server", name, wd))
			}
			e = nil
		} else if cs.Kind == "suite" || cs.Kind == "first" {
			r.NotReset = append(e.fwd.resetProblems("server allowing forward references"), e.nofwd.resetProblems("server disallowing forward references")...)
			m1, f1, _ := e.fwd.rec.take()
			m2, f2, _ := e.nofwd.rec.take()
			r.IDNotes, prevMax = idNotes(append(m1, m2...), append(f1, f2...), prevMax)
		}
		out.Results = append(out.Results, r)
	}
	if e != nil {
		e.stop()
	}
	out.Millis = time.Since(t0).Milliseconds()
	return out, problems
}

// oracle evaluates the property on what the implementation did.
func oracle(cr CaseResult) []string {
	var v []string
	isDesignated := map[string]bool{}
	for _, n := range designated[cr.Case.Server] {
		isDesignated[n] = true
	}
	for _, n := range extraDesignated[cr.Case.Server] {
		isDesignated[n] = true
	}
	for _, n := range fibACKTests(cr.Case.Server) {
		isDesignated[n] = true
	}
	for i, r := range cr.Results {
		first := ""
		if len(r.Messages) > 0 {
			first = r.Messages[0]
		}
		if cr.Case.Server == "reference" {
			if r.Verdict == "fail" {
				v = append(v, fmt.Sprintf("compliance test %q fails against the reference server (position %d of %d, election base %d, default %q, vrf %q) [reference-test-fails]: %s",
					r.Test, i, len(cr.Results), cr.Case.Config.Base, cr.Case.Config.Dflt, cr.Case.Config.Vrf, first))
			}
			for _, p := range r.NotReset {
				v = append(v, fmt.Sprintf("compliance test %q does not leave the shared server reset [test-does-not-reset]: %s", r.Test, p))
			}
		} else if isDesignated[r.Test] && r.Verdict != "fail" {
			v = append(v, fmt.Sprintf("compliance test %q is written for the requirement that server %q breaks, but its verdict is %s [fault-not-flagged]", r.Test, cr.Case.Server, r.Verdict))
		}
	}
	return v
}

// fibACK lists, in suite order, the tests of compliance.TestSuite that declare RequiresFIBACK; it is filled from the
// suite when the run starts (nothing is hard-coded: a test that is added later, or one that silently stops
// asking for the FIB acknowledgement, is covered).
var fibACK []string

// fibACKTests returns the FIB-ACK tests that must fail against server kind k: all of them when no FIB_PROGRAMMED
// is ever sent, those that delete entries when only DELETEs lose it.
func fibACKTests(k string) []string {
	switch k {
	case "omit_fib":
		return fibACK
	case "omit_fib_for_deletes_only":
		var out []string
		for _, n := range fibACK {
			if strings.Contains(n, "Delete") {
				out = append(out, n)
			}
		}
		return out
	}
	return nil
}

func generate(seed int64, n int, tier string, names []string) []Case {
	rng := drv.NewRng(seed)
	var cases []Case
	if n < 1 {
		n = 1
	}
	for i := 0; i < n; i++ {
		perm := rng.Perm(len(names))
		order := make([]string, len(names))
		for j, p := range perm {
			order[j] = names[p]
		}
		cfg := configs[int((seed+int64(i))%int64(len(configs))+int64(len(configs)))%len(configs)]
		cases = append(cases, Case{Kind: "suite", Server: "reference", Config: cfg, Order: order, Seed: seed})
	}
	if tier != "thorough" {
		// the quick tier runs few permutations: make sure one of them uses names other than the built-in defaults
		perm := rng.Perm(len(names))
		order := make([]string, len(names))
		for j, p := range perm {
			order[j] = names[p]
		}
		cases = append(cases, Case{Kind: "suite", Server: "reference", Config: configs[2], Order: order, Seed: seed})
		// the tests that do arithmetic on the suite's election id, each as the first test on a fresh server at the
		// lowest starting id (the thorough tier does this for every test)
		first := []string{}
		for _, n := range names {
			if strings.Contains(n, "lection") || strings.Contains(n, "master") {
				first = append(first, n)
			}
		}
		cfg := configs[0]
		cfg.Base = 1
		cases = append(cases, Case{Kind: "cells", Server: "reference", Config: cfg, Order: first, Seed: seed})
	}
	if tier == "thorough" {
		// every test as the first test on a fresh server, at the lowest election id and in every configuration
		for i, cfg := range configs {
			if i == 0 || i == 2 {
				cfg.Base = uint64(1 + i/2)
			}
			cases = append(cases, Case{Kind: "cells", Server: "reference", Config: cfg, Order: append([]string{}, names...), Seed: seed})
		}
	}
	// the catalogue: the transcribed tests on a fresh reference server, then each fault
	// (election base 1000: at base 1 "Flush from non-elected master returns error" sends the invalid id 0 when it
	// is the first test on a server, and fails for that reason on any server)
	cases = append(cases, Case{Kind: "cells", Server: "reference", Config: configs[1], Order: transcribedNames(), Seed: seed})
	// every FIB-ACK test at once against fresh reference servers: they must pass (this also shows that running
	// them concurrently does not disturb them)
	cases = append(cases, Case{Kind: "parallel", Server: "reference", Config: configs[1], Order: append([]string{}, fibACK...), Seed: seed})
	for _, k := range faultKinds[1:] {
		order := append([]string{}, designated[k]...)
		if fib := fibACKTests(k); fib != nil {
			// these tests wait for the acknowledgement until the watchdog stops them: all at the same time, each
			// on its own fresh faulty server; the sequential cells below keep the controls only
			cases = append(cases, Case{Kind: "parallel", Server: k, Config: configs[1], Order: append([]string{}, fib...), Seed: seed})
			order = nil
		}
		ctl := controls[k]
		if ctl == nil {
			ctl = []string{"Add IPv4 entry that can be programmed on the server - with RIB ACK", "Modify RPC Connection with Election ID"}
		}
		if tier == "thorough" {
			if fibACKTests(k) == nil {
				order = append(order, extraDesignated[k]...)
			}
			ctl = append(append([]string{}, ctl...), transcribedNames()...)
		}
		for _, c := range ctl {
			dup := false
			for _, o := range order {
				dup = dup || o == c
			}
			for _, o := range fibACKTests(k) { // already in the concurrent batch
				dup = dup || o == c
			}
			if !dup {
				order = append(order, c)
			}
		}
		cfg := configs[1]
		if tier == "thorough" {
			cfg = configs[1+int(rng.Intn(len(configs)-1))]
		}
		cases = append(cases, Case{Kind: "cells", Server: k, Config: cfg, Order: order, Seed: seed})
	}
	// every test as the FIRST test of a process, followed by three sentinels on the same long-lived reference servers:
	// whatever a test leaves behind in the process (package variables of the suite, of its checkers or of the client)
	// must not change the verdict of what runs after it
	var sentinels []string
	for _, sub := range []string{"Add IPv4 entry that can be programmed on the server - with RIB ACK", "Election - Sending same election ID from two clients", "Add next-hop-group entry that can be resolved on the server, no referencing IPv4 entries - with RIB ACK"} {
		for _, n := range names {
			if n == sub {
				sentinels = append(sentinels, n)
			}
		}
	}
	for _, n := range names {
		order := []string{n}
		for _, s := range sentinels {
			if s != n {
				order = append(order, s)
			}
		}
		cases = append(cases, Case{Kind: "first", Server: "reference", Config: configs[1], Order: order, Seed: seed})
	}
	if len(fibACK) > 0 {
		// one of the tests that wait for the FIB acknowledgement, against the server that never sends it, with the
		// patience the suite's own one-minute bounds require (run in a process of its own, beside everything else)
		cases = append(cases, Case{Kind: "patient", Server: "omit_fib", Config: configs[1], Order: []string{fibACK[int(seed)%len(fibACK)]}, Seed: seed})
	}
	return cases
}

func run(args []string) error {
	fl := drv.NewFlags("c19")
	if err := fl.Parse(args); err != nil {
		return err
	}
	suite, names := suiteByName()
	fibACK = nil
	for _, n := range names {
		if suite[n].In.RequiresFIBACK {
			fibACK = append(fibACK, n)
		}
	}
	var cases []Case
	if *fl.Replay != "" {
		if err := drv.ReadJSON(*fl.Replay, &cases); err != nil {
			return err
		}
	} else {
		cases = generate(*fl.Seed, *fl.N, *fl.Tier, names)
	}
	rep := drv.Report{Property: "C19", Seed: *fl.Seed, Cases: len(cases), Stats: map[string]int{}, Shard: drv.ShardSize,
		Rule: "distinct (server kind, configuration, order of tests) runs in which at least one test executed: permutation runs of the suite on long-lived reference servers + fresh-server runs against each faulty server"}
	var results []CaseResult
	var coq []string
	distinct := map[string]bool{}
	// "patient" cases take minutes of waiting: when this is a generated run each of them is handed to a child process
	// (the compliance package keeps its election-id counter and instance names in package variables) that runs
	// beside the other cases; a replay runs them in place
	type child struct {
		cmd  *exec.Cmd
		dir  string
		done chan error
	}
	children := map[int]*child{}
	pool := make(chan struct{}, 8) // "first" cases: at most eight child processes at a time
	if *fl.Replay == "" {
		for i, cs := range cases {
			if cs.Kind != "patient" && cs.Kind != "first" {
				continue
			}
			dir := filepath.Join(*fl.Out, fmt.Sprintf("%s%d", cs.Kind, i))
			os.MkdirAll(dir, 0o755)
			if err := drv.WriteJSON(filepath.Join(dir, "in.json"), []Case{cs}); err != nil {
				return err
			}
			cmd := exec.Command(os.Args[0], "c19", "-replay", filepath.Join(dir, "in.json"), "-out", dir)
			ch := &child{cmd: cmd, dir: dir, done: make(chan error, 1)}
			children[i] = ch
			if cs.Kind == "patient" {
				go func() { ch.done <- cmd.Run() }()
			} else {
				go func() { pool <- struct{}{}; err := cmd.Run(); <-pool; ch.done <- err }()
			}
		}
	}
	for i, cs := range cases {
		var cr CaseResult
		var problems []string
		if ch := children[i]; ch != nil {
			werr := <-ch.done
			var rs []CaseResult
			var crep drv.Report
			if err := drv.ReadJSON(filepath.Join(ch.dir, "results.json"), &rs); err != nil || len(rs) != 1 || werr != nil {
				return fmt.Errorf("%s case %d: child process: %v %v", cs.Kind, i, werr, err)
			}
			drv.ReadJSON(filepath.Join(ch.dir, "impl.json"), &crep)
			cr = rs[0]
			for _, v := range append(crep.Violations, crep.Hangs...) {
				if !strings.Contains(v.Problem, "is written for the requirement") { // the oracle below reports those
					problems = append(problems, v.Problem)
				}
			}
		} else {
			cr, problems = runCase(cs, suite)
		}
		results = append(results, cr)
		for _, p := range problems {
			if strings.HasPrefix(p, "HANG") {
				rep.Hangs = append(rep.Hangs, drv.Verdict{Case: i, Problem: p})
			} else {
				rep.Violations = append(rep.Violations, drv.Verdict{Case: i, Problem: p})
			}
		}
		for _, p := range oracle(cr) {
			rep.Violations = append(rep.Violations, drv.Verdict{Case: i, Problem: p})
		}
		if len(cr.Results) > 0 {
			distinct[fmt.Sprintf("%s|%s|%v|%s", cs.Kind, cs.Server, cs.Config, strings.Join(cs.Order, "\x00"))] = true
		}
		rep.Stats["runs_"+cs.Kind+"_"+cs.Server]++
		if cs.Kind == "suite" {
			// every client of a suite run is built with Connection().WithStub over the ONE gRPC channel per server
			// that lives as long as the run (env.go newNode): a session that a test leaves open stays registered
			rep.Stats["suite_runs_with_all_clients_on_one_long_lived_stub_channel"]++
		}
		if cs.Kind == "parallel" {
			rep.Stats["tests_run_concurrently_on_own_fresh_servers"] += len(cr.Results)
		}
		rep.Stats["config_base_"+fmt.Sprint(cs.Config.Base)]++
		fnum := faultNumber(cs.Server)
		var cells []string
		for _, r := range cr.Results {
			rep.Stats["tests_executed"]++
			rep.Stats["verdict_"+r.Verdict+"_on_"+cs.Server]++
			if r.Timeout {
				rep.Stats["watchdog_stopped_on_"+cs.Server]++
			}
			if r.Unrepeated > 0 {
				rep.Stats["reference_test_waits_that_did_not_recur"] += r.Unrepeated
			}
			if len(r.NotReset) > 0 {
				rep.Stats["tests_not_resetting"]++
			}
			if len(r.IDNotes) > 0 {
				rep.Stats["tests_using_ids_outside_their_window"]++
			}
			if t, ok := transcribed[r.Test]; ok && r.Verdict != "skip" && fnum >= 0 {
				cells = append(cells, fmt.Sprintf("mk_ccase %d %d %v", t, fnum, r.Verdict == "pass"))
			}
		}
		coq = append(coq, drv.CoqList(cells))
	}
	rep.Nontrivial = len(distinct)
	for i, cr := range results {
		if i == 0 || i == len(results)-1 || i == len(results)/2 {
			type short struct {
				Kind, Server string
				Config       Config
				Tests        int
				Verdicts     map[string]int
				Millis       int64
				First        []TestResult
			}
			s := short{Kind: cr.Case.Kind, Server: cr.Case.Server, Config: cr.Case.Config, Tests: len(cr.Results), Verdicts: map[string]int{}, Millis: cr.Millis}
			for j, r := range cr.Results {
				s.Verdicts[r.Verdict]++
				if j < 3 {
					s.First = append(s.First, r)
				}
			}
			rep.Samples = append(rep.Samples, s)
		}
	}
	sort.Slice(rep.Violations, func(i, j int) bool { return rep.Violations[i].Case < rep.Violations[j].Case })
	if err := drv.WriteJSON(filepath.Join(*fl.Out, "cases.json"), cases); err != nil {
		return err
	}
	if err := drv.WriteJSON(filepath.Join(*fl.Out, "results.json"), results); err != nil {
		return err
	}
	if err := drv.WriteCasesV(*fl.Out, "From Coq Require Import List NArith Bool.\nFrom GV.Tools Require Import Compliance.\nImport ListNotations.\nOpen Scope N_scope.",
		"(list ccase)", "cmismatches_runs", coq); err != nil {
		return err
	}
	return drv.WriteJSON(filepath.Join(*fl.Out, "impl.json"), rep)
}
