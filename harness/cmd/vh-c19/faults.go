package main

// The fault catalogue: gRIBI servers that break exactly one protocol requirement, obtained by
// wrapping the reference server (*server.Server). Each wrapper delegates every RPC and alters one
// behaviour on the wire. The same faults are modelled in coq/theories/Tools/Compliance.v (fstep).

import (
	"context"
	"sync"
	"sync/atomic"
	"time"

	"github.com/openconfig/gribigo/aft"
	"github.com/openconfig/gribigo/server"
	"google.golang.org/grpc/status"
	"google.golang.org/protobuf/proto"
	"google.golang.org/protobuf/types/known/anypb"

	spb "github.com/openconfig/gribi/v1/proto/service"
)

// faultKinds lists the catalogue in the numbering shared with Compliance.v (fault_of); 0 = reference.
var faultKinds = []string{
	"reference",
	"omit_fib",               // FIB_PROGRAMMED results are never sent
	"nonprimary",             // operations of any session are programmed (sender made primary under the current id, operations re-stamped)
	"fail_idem_delete",       // DELETE of an entry that is not installed is answered FAILED
	"stale_get",              // Get omits one entry
	"ignore_flush",           // Flush answers OK and removes nothing
	"misreport_elect",        // the election id in responses is off by one
	"accept_repeated_params", // a second SessionParameters message is acknowledged instead of ending the RPC
	// per-recipient / per-kind variants: the same requirements broken in a second way
	"echo_own_elect",                  // the election response carries the announcer's own id, not the highest id seen
	"misreport_elect_nonprimary_only", // the election id is off by one only in responses to a session that is not the primary
	"omit_fib_for_deletes_only",       // FIB_PROGRAMMED is never sent for DELETE operations
	"stale_get_one_table_only",        // Get omits one entry of the IPv4 table (every other table is complete)
	"ignore_flush_named_only",         // Flush of a named instance answers OK and removes nothing (ALL is honoured)
	"old_primary_kept_on_equal_id",    // a session whose announced id equals the current id is still served as primary after another session announced the same id
	// Get loses exactly one table; every other table is complete
	"stale_get_nh_table",  // Get never returns next-hop entries
	"stale_get_nhg_table", // Get never returns next-hop-group entries
	// judged by the harness alone (numbers from 16 on are unknown to Compliance.v: model_pass answers None)
	"wrong_reject_reason",            // a Modify RPC that ends with a status carrying ModifyRPCErrorDetails ends with the same code and message and a different reason
	"leak_results_to_other_sessions", // every response with AFT results is also sent to every other open Modify stream
}

func faultNumber(kind string) int {
	for i, k := range faultKinds {
		if k == kind {
			return i
		}
	}
	return -1
}

// faultServer is a spb.GRIBIServer delegating to the reference server.
type faultServer struct {
	spb.UnimplementedGRIBIServer
	s    *server.Server
	kind string

	winMu  sync.Mutex
	winner *faultStream // the stream whose announcement was last answered with its own id (the primary)

	// nonprimary: the injected announcement and the re-stamped request that follows it are one step of the faulty
	// server: no other session's pair may come between them (otherwise the fault shows or not by scheduling)
	pairMu sync.Mutex

	// leak_results_to_other_sessions: the Modify streams that are open
	openMu sync.Mutex
	open   map[*faultStream]bool
}

// leak_results_to_other_sessions sends every response with AFT results late, in three steps: it waits leakSettle
// (a stream that a client opened before the operation was sent has reached its handler by then: the compliance test
// opens the second client's stream and sends the first client's operations without waiting for anything in
// between), writes a copy to every other open stream, and, if there was one, waits leakDelay before it writes the
// originator's own response (the other clients have read their copy by the time the originator, and the test that
// waits for it, goes on).
const (
	leakSettle = 150 * time.Millisecond
	leakDelay  = 150 * time.Millisecond
)

func (f *faultServer) register(st *faultStream) {
	f.openMu.Lock()
	if f.open == nil {
		f.open = map[*faultStream]bool{}
	}
	f.open[st] = true
	f.openMu.Unlock()
}

// unregister removes st once its RPC is over; nothing is written to it afterwards.
func (f *faultServer) unregister(st *faultStream) {
	f.openMu.Lock()
	delete(f.open, st)
	f.openMu.Unlock()
	st.sendMu.Lock()
	st.over = true
	st.sendMu.Unlock()
}

func (f *faultServer) others(me *faultStream) []*faultStream {
	f.openMu.Lock()
	defer f.openMu.Unlock()
	var out []*faultStream
	for st := range f.open {
		if st != me {
			out = append(out, st)
		}
	}
	return out
}

// otherReason maps every reason to another valid one, never to itself.
func otherReason(r spb.ModifyRPCErrorDetails_Reason) spb.ModifyRPCErrorDetails_Reason {
	switch r {
	case spb.ModifyRPCErrorDetails_UNSUPPORTED_PARAMS:
		return spb.ModifyRPCErrorDetails_MODIFY_NOT_ALLOWED
	case spb.ModifyRPCErrorDetails_MODIFY_NOT_ALLOWED:
		return spb.ModifyRPCErrorDetails_PARAMS_DIFFER_FROM_OTHER_CLIENTS
	case spb.ModifyRPCErrorDetails_PARAMS_DIFFER_FROM_OTHER_CLIENTS:
		return spb.ModifyRPCErrorDetails_ELECTION_ID_IN_ALL_PRIMARY
	case spb.ModifyRPCErrorDetails_ELECTION_ID_IN_ALL_PRIMARY:
		return spb.ModifyRPCErrorDetails_UNSUPPORTED_PARAMS
	}
	return spb.ModifyRPCErrorDetails_UNSUPPORTED_PARAMS // UNKNOWN, or a value outside the enum
}

// wrongReason returns err with the reason of every ModifyRPCErrorDetails it carries replaced (same code, same
// message, every other detail unchanged). An error without such details is returned as it is.
func wrongReason(err error) error {
	if err == nil {
		return nil
	}
	s, ok := status.FromError(err)
	if !ok {
		return err
	}
	p := s.Proto() // a copy
	changed := false
	for i, d := range p.GetDetails() {
		m := &spb.ModifyRPCErrorDetails{}
		if !d.MessageIs(m) || d.UnmarshalTo(m) != nil {
			continue
		}
		m.Reason = otherReason(m.GetReason())
		a, aerr := anypb.New(m)
		if aerr != nil {
			continue
		}
		p.Details[i] = a
		changed = true
	}
	if !changed {
		return err
	}
	return status.FromProto(p).Err()
}

func (f *faultServer) setWinner(st *faultStream) { f.winMu.Lock(); f.winner = st; f.winMu.Unlock() }
func (f *faultServer) isWinner(st *faultStream) bool {
	f.winMu.Lock()
	defer f.winMu.Unlock()
	return f.winner == st
}

func (f *faultServer) Modify(ms spb.GRIBI_ModifyServer) error {
	st := &faultStream{GRIBI_ModifyServer: ms, f: f, failIDs: map[uint64]bool{}}
	defer func() {
		if st.pair.Swap(0) != 0 {
			f.pairMu.Unlock()
		}
	}()
	switch f.kind {
	case "wrong_reject_reason":
		return wrongReason(f.s.Modify(st))
	case "leak_results_to_other_sessions":
		f.register(st)
		defer f.unregister(st)
	}
	return f.s.Modify(st)
}

func (f *faultServer) Get(req *spb.GetRequest, gs spb.GRIBI_GetServer) error {
	if f.kind == "stale_get" {
		return f.s.Get(req, &staleGet{GRIBI_GetServer: gs})
	}
	if f.kind == "stale_get_nh_table" || f.kind == "stale_get_nhg_table" {
		return f.s.Get(req, &tableGet{GRIBI_GetServer: gs, nh: f.kind == "stale_get_nh_table"})
	}
	if f.kind == "stale_get_one_table_only" {
		return f.s.Get(req, &staleGet{GRIBI_GetServer: gs, ipv4Only: true})
	}
	return f.s.Get(req, gs)
}

func (f *faultServer) Flush(ctx context.Context, req *spb.FlushRequest) (*spb.FlushResponse, error) {
	if f.kind == "ignore_flush" || (f.kind == "ignore_flush_named_only" && req.GetName() != "") {
		return &spb.FlushResponse{Timestamp: time.Now().UnixNano(), Result: spb.FlushResponse_OK}, nil
	}
	return f.s.Flush(ctx, req)
}

// staleGet drops one entry of the Get result.
type staleGet struct {
	spb.GRIBI_GetServer
	ipv4Only bool
	dropped  bool
}

func (g *staleGet) Send(r *spb.GetResponse) error {
	if !g.dropped {
		for i, e := range r.GetEntry() {
			if g.ipv4Only && e.GetIpv4() == nil {
				continue
			}
			g.dropped = true
			r = proto.Clone(r).(*spb.GetResponse)
			r.Entry = append(r.Entry[:i:i], r.Entry[i+1:]...)
			break
		}
	}
	return g.GRIBI_GetServer.Send(r)
}

// tableGet drops every entry of one table (next-hops, or next-hop-groups) from the Get result.
type tableGet struct {
	spb.GRIBI_GetServer
	nh bool
}

func (g *tableGet) Send(r *spb.GetResponse) error {
	out := proto.Clone(r).(*spb.GetResponse)
	out.Entry = out.Entry[:0]
	for _, e := range r.GetEntry() {
		if (g.nh && e.GetNextHop() != nil) || (!g.nh && e.GetNextHopGroup() != nil) {
			continue
		}
		out.Entry = append(out.Entry, e)
	}
	return g.GRIBI_GetServer.Send(out)
}

// faultStream sits between the gRPC stream and the reference server's Modify handler.
type faultStream struct {
	spb.GRIBI_ModifyServer
	f *faultServer

	sendMu sync.Mutex // the wrapper itself sends (accept_repeated_params, leaked copies), concurrently with the server's sender
	over   bool       // leak_results_to_other_sessions: the RPC has ended (under sendMu)

	// only touched by the server's single receiving goroutine
	queued     *spb.ModifyRequest
	seenParams bool

	swallow atomic.Int32 // election responses caused by injected announcements, still to be dropped
	pair    atomic.Int32 // nonprimary: 1 = announcement injected (pairMu held), 2 = re-stamped request handed to the server
	failMu  sync.Mutex
	failIDs map[uint64]bool // fail_idem_delete: DELETEs of missing entries; omit_fib_for_deletes_only: every DELETE

	annMu     sync.Mutex
	announced []*spb.Uint128 // ids announced by the client and not yet answered, oldest first
	lastAnn   *spb.Uint128   // the id the client announced last
}

func (st *faultStream) noteAnnounced(id *spb.Uint128) {
	st.annMu.Lock()
	st.announced = append(st.announced, id)
	st.lastAnn = id
	st.annMu.Unlock()
}

// answered pops the announcement that the election response r answers.
func (st *faultStream) answered() *spb.Uint128 {
	st.annMu.Lock()
	defer st.annMu.Unlock()
	if len(st.announced) == 0 {
		return nil
	}
	id := st.announced[0]
	st.announced = st.announced[1:]
	return id
}

func sameID(a, b *spb.Uint128) bool {
	return a != nil && b != nil && a.GetHigh() == b.GetHigh() && a.GetLow() == b.GetLow()
}

func (st *faultStream) rawSend(r *spb.ModifyResponse) error {
	st.sendMu.Lock()
	defer st.sendMu.Unlock()
	return st.GRIBI_ModifyServer.Send(r)
}

// leakSend writes r to st, unless st's RPC is over.
func (st *faultStream) leakSend(r *spb.ModifyResponse) error {
	st.sendMu.Lock()
	defer st.sendMu.Unlock()
	if st.over {
		return nil
	}
	return st.GRIBI_ModifyServer.Send(r)
}

func (st *faultStream) Recv() (*spb.ModifyRequest, error) {
	for {
		if st.pair.CompareAndSwap(2, 0) {
			// the server asks for the next message: it has handled the re-stamped request
			st.f.pairMu.Unlock()
		}
		if st.queued != nil {
			m := st.queued
			st.queued = nil
			st.pair.CompareAndSwap(1, 2)
			return m, nil
		}
		m, err := st.GRIBI_ModifyServer.Recv()
		if err != nil {
			return m, err
		}
		only := func(params, elec, ops bool) bool {
			return (m.GetParams() != nil) == params && (m.GetElectionId() != nil) == elec && (len(m.GetOperation()) > 0) == ops
		}
		if only(false, true, false) {
			st.noteAnnounced(m.GetElectionId())
		}
		switch st.f.kind {
		case "old_primary_kept_on_equal_id":
			if only(false, false, true) {
				st.annMu.Lock()
				last := st.lastAnn
				st.annMu.Unlock()
				if cur, _ := st.f.s.VerifElection(); sameID(cur, last) {
					st.queued = m
					st.swallow.Add(1)
					return &spb.ModifyRequest{ElectionId: proto.Clone(cur).(*spb.Uint128)}, nil
				}
			}
		case "omit_fib_for_deletes_only":
			st.failMu.Lock()
			for _, op := range m.GetOperation() {
				if op.GetOp() == spb.AFTOperation_DELETE {
					st.failIDs[op.GetId()] = true
				}
			}
			st.failMu.Unlock()
		case "accept_repeated_params":
			if only(true, false, false) {
				if st.seenParams {
					st.rawSend(&spb.ModifyResponse{SessionParamsResult: &spb.SessionParametersResult{Status: spb.SessionParametersResult_OK}})
					continue
				}
				st.seenParams = true
			}
		case "nonprimary":
			if only(false, false, true) {
				if cur, _ := st.f.s.VerifElection(); cur != nil {
					m2 := proto.Clone(m).(*spb.ModifyRequest)
					for _, op := range m2.Operation {
						op.ElectionId = proto.Clone(cur).(*spb.Uint128)
					}
					st.queued = m2
					st.swallow.Add(1)
					st.f.pairMu.Lock()
					st.pair.Store(1)
					return &spb.ModifyRequest{ElectionId: proto.Clone(cur).(*spb.Uint128)}, nil
				}
			}
		case "fail_idem_delete":
			if len(m.GetOperation()) > 0 {
				st.markMissingDeletes(m.GetOperation())
			}
		}
		return m, nil
	}
}

// markMissingDeletes records the ids of DELETE operations whose entry is not installed when the
// request arrives (the server handles the requests of a stream one after the other, so the RIB
// reflects every earlier request of this stream).
func (st *faultStream) markMissingDeletes(ops []*spb.AFTOperation) {
	contents, err := st.f.s.VerifRIB().RIBContents()
	if err != nil {
		return
	}
	gone := map[string]bool{}
	for _, op := range ops {
		if op.GetOp() != spb.AFTOperation_DELETE {
			continue
		}
		r := contents[op.GetNetworkInstance()]
		if r == nil {
			continue // unknown instance: the server answers FAILED itself
		}
		afts := r.Afts
		if afts == nil {
			afts = &aft.Afts{}
		}
		present, key := true, ""
		switch e := op.GetEntry().(type) {
		case *spb.AFTOperation_Ipv4:
			key = "4/" + e.Ipv4.GetPrefix()
			_, present = afts.Ipv4Entry[e.Ipv4.GetPrefix()]
		case *spb.AFTOperation_Ipv6:
			key = "6/" + e.Ipv6.GetPrefix()
			_, present = afts.Ipv6Entry[e.Ipv6.GetPrefix()]
		case *spb.AFTOperation_NextHopGroup:
			key = "g/" + itoa(e.NextHopGroup.GetId())
			_, present = afts.NextHopGroup[e.NextHopGroup.GetId()]
		case *spb.AFTOperation_NextHop:
			key = "h/" + itoa(e.NextHop.GetIndex())
			_, present = afts.NextHop[e.NextHop.GetIndex()]
		default:
			continue
		}
		key = op.GetNetworkInstance() + "/" + key
		if !present || gone[key] {
			st.failMu.Lock()
			st.failIDs[op.GetId()] = true
			st.failMu.Unlock()
		}
		gone[key] = true
	}
}

func (st *faultStream) Send(r *spb.ModifyResponse) error {
	electionOnly := r.GetElectionId() != nil && len(r.GetResult()) == 0 && r.GetSessionParamsResult() == nil
	if electionOnly && st.f.kind != "nonprimary" && st.f.kind != "old_primary_kept_on_equal_id" {
		own := st.answered()
		if sameID(own, r.GetElectionId()) {
			st.f.setWinner(st)
		}
		switch st.f.kind {
		case "echo_own_elect":
			if own != nil {
				r = proto.Clone(r).(*spb.ModifyResponse)
				r.ElectionId = proto.Clone(own).(*spb.Uint128)
			}
		case "misreport_elect_nonprimary_only":
			if !st.f.isWinner(st) {
				r = proto.Clone(r).(*spb.ModifyResponse)
				r.ElectionId.Low++
			}
		}
	}
	switch st.f.kind {
	case "omit_fib":
		if len(r.GetResult()) > 0 {
			r = proto.Clone(r).(*spb.ModifyResponse)
			kept := r.Result[:0]
			for _, x := range r.Result {
				if x.GetStatus() != spb.AFTResult_FIB_PROGRAMMED {
					kept = append(kept, x)
				}
			}
			r.Result = kept
			if len(kept) == 0 {
				return nil
			}
		}
	case "misreport_elect":
		if r.GetElectionId() != nil {
			r = proto.Clone(r).(*spb.ModifyResponse)
			r.ElectionId.Low++
		}
	case "omit_fib_for_deletes_only":
		if len(r.GetResult()) > 0 {
			st.failMu.Lock()
			r = proto.Clone(r).(*spb.ModifyResponse)
			kept := r.Result[:0]
			for _, x := range r.Result {
				if st.failIDs[x.GetId()] && x.GetStatus() == spb.AFTResult_FIB_PROGRAMMED {
					continue
				}
				kept = append(kept, x)
			}
			r.Result = kept
			st.failMu.Unlock()
			if len(kept) == 0 {
				return nil
			}
		}
	case "nonprimary", "old_primary_kept_on_equal_id":
		if electionOnly {
			for {
				n := st.swallow.Load()
				if n <= 0 {
					break
				}
				if st.swallow.CompareAndSwap(n, n-1) {
					return nil
				}
			}
		}
	case "fail_idem_delete":
		if len(r.GetResult()) > 0 {
			st.failMu.Lock()
			r = proto.Clone(r).(*spb.ModifyResponse)
			kept := r.Result[:0]
			for _, x := range r.Result {
				if st.failIDs[x.GetId()] {
					if x.GetStatus() == spb.AFTResult_FIB_PROGRAMMED {
						continue
					}
					x.Status = spb.AFTResult_FAILED
				}
				kept = append(kept, x)
			}
			r.Result = kept
			st.failMu.Unlock()
			if len(kept) == 0 {
				return nil
			}
		}
	case "leak_results_to_other_sessions":
		if len(r.GetResult()) > 0 {
			time.Sleep(leakSettle)
			if others := st.f.others(st); len(others) > 0 {
				for _, o := range others {
					o.leakSend(proto.Clone(r).(*spb.ModifyResponse))
				}
				time.Sleep(leakDelay)
			}
			return st.leakSend(r) // the client may have closed the stream in the meantime
		}
	}
	return st.rawSend(r)
}

func itoa(v uint64) string {
	if v == 0 {
		return "0"
	}
	b := []byte{}
	for v > 0 {
		b = append([]byte{byte('0' + v%10)}, b...)
		v /= 10
	}
	return string(b)
}
