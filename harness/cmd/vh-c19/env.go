package main

// Long-lived in-memory gRIBI servers (bufconn) and the wire-level contract monitor.

import (
	"context"
	"fmt"
	"io"
	"net"
	"os"
	"sync"
	"time"

	"github.com/openconfig/gribigo/server"
	"google.golang.org/grpc"
	"google.golang.org/grpc/credentials/insecure"
	"google.golang.org/grpc/test/bufconn"

	spb "github.com/openconfig/gribi/v1/proto/service"
)

// Config is one configuration of the suite: first election id, name used as "default" network
// instance by the tests, name of the non-default VRF.
type Config struct {
	Base uint64 `json:"base"`
	Dflt string `json:"dflt"`
	Vrf  string `json:"vrf"`
}

// recorder is a spb.GRIBIServer that delegates to impl and records what crosses the wire.
type recorder struct {
	spb.UnimplementedGRIBIServer
	impl spb.GRIBIServer

	mu        sync.Mutex
	modifyIDs []uint64 // low words of the non-zero election ids announced or stamped on Modify (high word 0)
	bigIDs    int      // ids with a non-zero high word
	flushIDs  []uint64
	rpcs      int
}

func (r *recorder) take() (mod, fl []uint64, rpcs int) {
	r.mu.Lock()
	defer r.mu.Unlock()
	mod, fl, rpcs = r.modifyIDs, r.flushIDs, r.rpcs
	r.modifyIDs, r.flushIDs, r.rpcs = nil, nil, 0
	return
}

func (r *recorder) noteID(id *spb.Uint128, flush bool) {
	if id == nil || (id.High == 0 && id.Low == 0) {
		return
	}
	r.mu.Lock()
	defer r.mu.Unlock()
	switch {
	case id.High != 0:
		r.bigIDs++
	case flush:
		r.flushIDs = append(r.flushIDs, id.Low)
	default:
		r.modifyIDs = append(r.modifyIDs, id.Low)
	}
}

type recStream struct {
	spb.GRIBI_ModifyServer
	r *recorder
}

func (s *recStream) Recv() (*spb.ModifyRequest, error) {
	m, err := s.GRIBI_ModifyServer.Recv()
	if err == nil && m != nil {
		s.r.noteID(m.GetElectionId(), false)
		for _, op := range m.GetOperation() {
			s.r.noteID(op.GetElectionId(), false)
		}
	}
	return m, err
}

func (r *recorder) count() { r.mu.Lock(); r.rpcs++; r.mu.Unlock() }

func (r *recorder) Modify(ms spb.GRIBI_ModifyServer) error {
	r.count()
	return r.impl.Modify(&recStream{GRIBI_ModifyServer: ms, r: r})
}
func (r *recorder) Get(req *spb.GetRequest, gs spb.GRIBI_GetServer) error {
	r.count()
	return r.impl.Get(req, gs)
}
func (r *recorder) Flush(ctx context.Context, req *spb.FlushRequest) (*spb.FlushResponse, error) {
	r.count()
	r.noteID(req.GetId(), true)
	return r.impl.Flush(ctx, req)
}

// node is one server with its in-memory transport. conn is ONE gRPC channel that lives as long as the node, and
// every fluent client of every test gets the same stub on it through Connection().WithStub (the way cmd/ccli
// hands a stub to the suite, but without closing the channel between tests): closing the Modify stream is the
// client's job (fluent Stop -> client.Close), not a side effect of tearing the channel down.
type node struct {
	srv  *server.Server
	rec  *recorder
	gs   *grpc.Server
	lis  *bufconn.Listener
	conn *grpc.ClientConn
	stub spb.GRIBIClient
}

// env is the pair of servers a run of the suite uses: forward references allowed / disallowed
// (compliance_test.go starts the latter for tests with RequiresDisallowedForwardReferences).
type env struct {
	kind       string
	fwd, nofwd *node
}

// referenceKind is what "reference" means in this process: the unchanged server, unless the
// environment selects a wrapper (used to demonstrate that the oracle reports a broken reference).
func referenceKind() string {
	if k := os.Getenv("VH_C19_REFERENCE"); k != "" && faultNumber(k) > 0 {
		return k
	}
	return "reference"
}

func newNode(kind string, cfg Config, disallowFwd bool) (*node, error) {
	vrfs := []string{cfg.Vrf}
	if cfg.Dflt != server.DefaultNetworkInstanceName && cfg.Dflt != cfg.Vrf {
		vrfs = append(vrfs, cfg.Dflt)
	}
	opts := []server.ServerOpt{server.WithVRFs(vrfs)}
	if disallowFwd {
		opts = append(opts, server.WithNoRIBForwardReferences())
	}
	s, err := server.New(opts...)
	if err != nil {
		return nil, err
	}
	if kind == "reference" {
		kind = referenceKind()
	}
	var impl spb.GRIBIServer = s
	if kind != "reference" {
		impl = &faultServer{s: s, kind: kind}
	}
	n := &node{srv: s, rec: &recorder{impl: impl}}
	n.lis = bufconn.Listen(1 << 20)
	n.gs = grpc.NewServer()
	spb.RegisterGRIBIServer(n.gs, n.rec)
	go n.gs.Serve(n.lis)
	n.conn, err = grpc.NewClient("passthrough:///bufnet",
		grpc.WithContextDialer(func(ctx context.Context, _ string) (net.Conn, error) { return n.lis.DialContext(ctx) }),
		grpc.WithTransportCredentials(insecure.NewCredentials()))
	if err != nil {
		n.gs.Stop()
		return nil, err
	}
	n.stub = spb.NewGRIBIClient(n.conn)
	return n, nil
}

func newEnv(kind string, cfg Config) (*env, error) {
	f, err := newNode(kind, cfg, false)
	if err != nil {
		return nil, err
	}
	nf, err := newNode(kind, cfg, true)
	if err != nil {
		f.stop()
		return nil, err
	}
	return &env{kind: kind, fwd: f, nofwd: nf}, nil
}

func (n *node) stop() {
	n.gs.Stop()
	n.conn.Close()
	n.lis.Close()
}

func (e *env) stop() { e.fwd.stop(); e.nofwd.stop() }

// resetProblems checks over the wire (Get) and through the verification hooks that the server is
// back in its initial state up to the election id: no entries in any instance, no Modify session,
// no held operation.
func (n *node) resetProblems(label string) []string {
	var out []string
	deadline := time.Now().Add(2 * time.Second)
	for {
		ss := n.srv.VerifSessions()
		if len(ss) == 0 {
			break
		}
		if time.Now().After(deadline) {
			out = append(out, fmt.Sprintf("%s: %d Modify session(s) still registered", label, len(ss)))
			break
		}
		time.Sleep(200 * time.Microsecond)
	}
	ctx, cancel := context.WithTimeout(context.Background(), 5*time.Second)
	defer cancel()
	gc, err := n.stub.Get(ctx, &spb.GetRequest{NetworkInstance: &spb.GetRequest_All{All: &spb.Empty{}}, Aft: spb.AFTType_ALL})
	if err != nil {
		return append(out, fmt.Sprintf("%s: Get failed: %v", label, err))
	}
	entries := 0
	for {
		r, err := gc.Recv()
		if err == io.EOF {
			break
		}
		if err != nil {
			out = append(out, fmt.Sprintf("%s: Get failed: %v", label, err))
			break
		}
		entries += len(r.GetEntry())
	}
	if entries != 0 {
		out = append(out, fmt.Sprintf("%s: %d entries left installed", label, entries))
	}
	if ids := n.srv.VerifRIB().VerifPendingIDs(); len(ids) != 0 {
		out = append(out, fmt.Sprintf("%s: %d held operation(s) left", label, len(ids)))
	}
	return out
}
