package main

// Sub-command c16conc (oracle only): the hooks are registered WHILE network instances are being
// created.  A history programs entries without any hook; then, at the "concreg" step,
//
//   - one existing network instance is kept read-locked through a public API: RIBHolder.GetRIB whose
//     reader does not read, or server.Get (one named instance / all) whose client stream stalls in Send;
//   - another goroutine calls RIB.SetPostChangeHook and RIB.SetResolvedEntryHook (either order, or one
//     goroutine each); the post-change registration has to wait for the busy instance;
//   - meanwhile the remaining network instances are created (RIB.AddNetworkInstance /
//     server.AddNetworkInstance);
//   - the reader is released and everything is awaited.
//
// Some cases have no busy instance: registration and creation simply race.  No entry is programmed
// during the registration (the pinned code promises notifications only once SetPostChangeHook has
// returned: instances it has not reached yet still run without the hook).  Afterwards the history goes
// on, programming entries into the new instances and the old ones, under the oracle of runCase: after
// every step the fold of the notifications over the tables as they were at registration equals
// RIBContents in EVERY instance, and every acknowledged top-level entry owes a resolved-entry callback.
//
// What the code has to guarantee for that (and the pinned code does): AddNetworkInstance either waits
// for a registration in progress or already sees the hook it registers.  Both are accepted here: if the
// creation does not return while the reader stalls, the reader is released and the creation awaited.

import (
	"context"
	"fmt"
	"strings"
	"sync"
	"time"

	"verifharness/drv"

	"github.com/openconfig/gribigo/rib"
	"github.com/openconfig/gribigo/server"
	"google.golang.org/grpc"
	"google.golang.org/grpc/codes"
	"google.golang.org/grpc/metadata"
	"google.golang.org/grpc/status"

	spb "github.com/openconfig/gribi/v1/proto/service"
)

// ConcSpec parametrises the "concreg" step of a case.
type ConcSpec struct {
	Hold    string `json:"hold"`     // none | getrib | get-name | get-all (the latter two: mode server)
	Busy    int    `json:"busy"`     // the instance kept read-locked
	Create  []int  `json:"create"`   // instances created while the registration is in progress
	Order   string `json:"order"`    // post-res | res-post | two (goroutines)
	DelayUs int    `json:"delay_us"` // head start of the registration before the first creation
	Fail    bool   `json:"fail"`     // the stalled Get ends with an error (client went away) / is abandoned
}

// gateGet is the server side of a Get RPC whose client stalls: every Send waits for release.
type gateGet struct {
	grpc.ServerStream
	once    sync.Once
	entered chan struct{}
	release chan struct{}
	fail    bool
}

func (g *gateGet) Context() context.Context     { return context.Background() }
func (g *gateGet) SetHeader(metadata.MD) error  { return nil }
func (g *gateGet) SendHeader(metadata.MD) error { return nil }
func (g *gateGet) SetTrailer(metadata.MD)       {}
func (g *gateGet) Send(*spb.GetResponse) error {
	g.once.Do(func() { close(g.entered) })
	<-g.release
	if g.fail {
		return status.Error(codes.Canceled, "client went away")
	}
	return nil
}

const (
	concPatience = 250 * time.Millisecond // how long a creation may take before the reader is released
	concWatchdog = 5 * time.Second
)

func waitCh(ch <-chan struct{}, d time.Duration) bool {
	select {
	case <-ch:
		return true
	case <-time.After(d):
		return false
	}
}

func isClosed(ch <-chan struct{}) bool {
	select {
	case <-ch:
		return true
	default:
		return false
	}
}

// concRegister performs the "concreg" step.  It returns the instances it created, statistics and
// verdicts (hangs only: the mirror oracle is evaluated by the caller on the steps that follow).
func concRegister(r *rib.RIB, srv *server.Server, col *collector, sp ConcSpec) (created []int, st map[string]int, problems []string) {
	st = map[string]int{}
	bad := func(f string, a ...any) { problems = append(problems, fmt.Sprintf(f, a...)) }

	// ---- 1. keep the busy instance read-locked
	release := func() {}
	var holderDone chan struct{}
	hold := sp.Hold
	if (hold == "get-name" || hold == "get-all") && srv == nil {
		hold = "getrib"
	}
	var busy *rib.RIBHolder
	if hold != "none" && hold != "" {
		if sp.Busy < 1 || sp.Busy >= len(drv.NINames) {
			hold = "none"
		} else if h, ok := r.NetworkInstanceRIB(drv.NINames[sp.Busy]); ok {
			busy = h
		} else {
			hold = "none"
		}
	} else {
		hold = "none"
	}
	switch hold {
	case "getrib":
		msgCh, stopCh := make(chan *spb.GetResponse), make(chan struct{})
		holderDone = make(chan struct{})
		go func() {
			defer close(holderDone)
			busy.GetRIB(map[spb.AFTType]bool{spb.AFTType_ALL: true}, msgCh, stopCh)
		}()
		var once sync.Once
		release = func() {
			once.Do(func() {
				if sp.Fail {
					close(stopCh) // the reader goes away
					return
				}
				go func() { // the reader wakes up and reads everything
					for {
						select {
						case <-msgCh:
						case <-holderDone:
							return
						}
					}
				}()
			})
		}
	case "get-name", "get-all":
		req := &spb.GetRequest{Aft: spb.AFTType_ALL, NetworkInstance: &spb.GetRequest_All{All: &spb.Empty{}}}
		if hold == "get-name" {
			req.NetworkInstance = &spb.GetRequest_Name{Name: drv.NINames[sp.Busy]}
		}
		g := &gateGet{entered: make(chan struct{}), release: make(chan struct{}), fail: sp.Fail}
		holderDone = make(chan struct{})
		go func() {
			defer close(holderDone)
			srv.Get(req, g)
		}()
		var once sync.Once
		release = func() { once.Do(func() { close(g.release) }) }
		waitCh(g.entered, concWatchdog)
	}
	defer release()
	if hold != "none" {
		// the reader holds the lock once an exclusive TryLock fails
		deadline := time.Now().Add(2 * time.Second)
		for busy.VerifTryLock() {
			if time.Now().After(deadline) || isClosed(holderDone) {
				st["conc_lock_not_held"]++ // (the instance holds too few entries for the reader to block)
				hold = "none"
				break
			}
			time.Sleep(50 * time.Microsecond)
		}
	}
	st["conc_hold_"+hold]++

	// ---- 2. the registration
	started, regDone := make(chan struct{}), make(chan struct{})
	go func() {
		defer close(regDone)
		close(started)
		switch sp.Order {
		case "res-post":
			r.SetResolvedEntryHook(col.resolved)
			r.SetPostChangeHook(col.postChange)
		case "two":
			var wg sync.WaitGroup
			wg.Add(1)
			go func() { defer wg.Done(); r.SetResolvedEntryHook(col.resolved) }()
			r.SetPostChangeHook(col.postChange)
			wg.Wait()
		default:
			r.SetPostChangeHook(col.postChange)
			r.SetResolvedEntryHook(col.resolved)
		}
	}()
	<-started
	if sp.DelayUs > 0 {
		time.Sleep(time.Duration(sp.DelayUs) * time.Microsecond)
	}
	if hold != "none" {
		if isClosed(regDone) {
			bad("SetPostChangeHook returned although network instance %s is read-locked by a stalled reader: it cannot have set that instance's hook", drv.NINames[sp.Busy])
		} else {
			st["conc_registration_waiting"]++
		}
	}

	// ---- 3. network instances are created meanwhile
	for _, n := range sp.Create {
		if n < 1 || n >= len(drv.NINames) {
			continue
		}
		if _, exists := r.NetworkInstanceRIB(drv.NINames[n]); exists {
			continue
		}
		addDone := make(chan struct{})
		var addErr error
		go func() {
			defer close(addDone)
			if srv != nil {
				addErr = srv.AddNetworkInstance(drv.NINames[n])
			} else {
				addErr = r.AddNetworkInstance(drv.NINames[n])
			}
		}()
		if !waitCh(addDone, concPatience) {
			// creation waits for the registration (fine): let the reader go and wait for both
			st["conc_creation_waited_for_registration"]++
			release()
			if !waitCh(addDone, concWatchdog) {
				bad("HANG: AddNetworkInstance(%s) did not return within %v of the stalled reader's release", drv.NINames[n], concWatchdog)
				return
			}
		}
		if addErr != nil {
			bad("AddNetworkInstance(%s): %v", drv.NINames[n], addErr)
			continue
		}
		created = append(created, n)
		if isClosed(regDone) {
			st["conc_created_after_registration"]++
		} else {
			st["conc_created_during_registration"]++
		}
	}

	// ---- 4. the reader goes on (or goes away); everything finishes
	release()
	if !waitCh(regDone, concWatchdog) {
		bad("HANG: hook registration did not return within %v of the stalled reader's release", concWatchdog)
		return
	}
	if holderDone != nil && !waitCh(holderDone, concWatchdog) {
		bad("HANG: the stalled Get did not return within %v of its release", concWatchdog)
	}
	return
}

// ---------------------------------------------------------------------------- generator

func genConcCase(r *drv.Rng) HCase {
	base := genRCase(r, drv.Pick(r, "C01", "C02", "C02"))
	body := []RStep{}
	maxID := uint64(0)
	for _, s := range base.Steps {
		if s.K != "addni" {
			body = append(body, s)
		}
		if s.Op != nil && s.Op.ID > maxID {
			maxID = s.Op.ID
		}
	}
	id := func() uint64 { maxID++; return maxID }
	c := HCase{Mode: drv.Pick(r, "rib", "server"), NoFwd: base.NoFwd, Shape: "conc"}
	// instances before the registration / created during it
	var initial, create []int
	switch r.Intn(5) {
	case 0:
		initial, create = []int{1}, []int{2, 3}
	case 1:
		initial, create = []int{1}, []int{3}
	case 2:
		initial, create = []int{1, 2}, []int{3}
	case 3:
		initial, create = []int{1, 3}, []int{2}
	default:
		initial, create = []int{1}, []int{3, 2}
	}
	sp := &ConcSpec{Busy: initial[r.Intn(len(initial))], Create: create,
		Order: drv.Pick(r, "post-res", "res-post", "two"), DelayUs: drv.Pick(r, 200, 500, 1000, 2000), Fail: r.Chance(1, 2)}
	switch x := r.Intn(10); {
	case x < 2:
		sp.Hold, sp.DelayUs = "none", drv.Pick(r, 0, 0, 5, 50)
	case x < 6 || c.Mode == "rib":
		sp.Hold = "getrib"
	case x < 8:
		sp.Hold = "get-name"
	default:
		sp.Hold, sp.Busy = "get-all", 1 // Get visits the instances in the order of their names: DEFAULT first
	}
	c.Conc = sp
	for _, n := range initial {
		if n != 1 {
			c.Steps = append(c.Steps, RStep{K: "addni", NI: n})
		}
	}
	k := r.Intn(len(body)/2 + 1)
	c.Steps = append(c.Steps, body[:k]...)
	nh := func(ni int, idx uint64, x uint64) RStep {
		return RStep{K: "add", Op: &drv.OpSpec{ID: id(), NI: ni, Kind: "ADD", T: "nh", Key: idx, X: [][2]uint64{{1, x}}}}
	}
	// the busy instance holds at least two entries (a stalled Get keeps it locked while the second one waits)
	c.Steps = append(c.Steps, nh(sp.Busy, 1, 1), nh(sp.Busy, 2, 2))
	c.Steps = append(c.Steps, RStep{K: "concreg"})
	all := append(append([]int{}, create...), initial...)
	for _, n := range all { // first changes in the new instances, then in the old ones
		c.Steps = append(c.Steps, nh(n, 3, uint64(1+r.Intn(3))))
	}
	c.Steps = append(c.Steps, body[k:]...)
	for _, n := range all {
		c.Steps = append(c.Steps, nh(n, 4, 1),
			RStep{K: "add", Op: &drv.OpSpec{ID: id(), NI: n, Kind: "ADD", T: "nhg", Key: 3, NHs: [][2]uint64{{4, 1}}}},
			RStep{K: "add", Op: &drv.OpSpec{ID: id(), NI: n, Kind: "ADD", T: "v4", Key: 3, NHG: 3}})
		if r.Chance(1, 2) {
			c.Steps = append(c.Steps, RStep{K: "del", Op: &drv.OpSpec{ID: id(), NI: n, Kind: "DELETE", T: "v4", Key: 3, NHG: 3}})
		}
	}
	if r.Chance(1, 4) {
		c.Steps = append(c.Steps, RStep{K: "flush", NIs: [][]int{{1, 2, 3}, {2}, {3}, {2, 3}}[r.Intn(4)]})
	}
	return c
}

// ---------------------------------------------------------------------------- command

func runC16Conc(args []string) error {
	f := drv.NewFlags("c16conc")
	if err := f.Parse(args); err != nil {
		return err
	}
	r := drv.NewRng(*f.Seed)
	var cases []HCase
	if *f.Replay != "" {
		if err := drv.ReadJSON(*f.Replay, &cases); err != nil {
			return err
		}
	} else {
		for i := 0; i < *f.N; i++ {
			cases = append(cases, genConcCase(r))
		}
	}
	rep := drv.Report{Property: "C16", Seed: *f.Seed, Shard: drv.ShardSize, Stats: map[string]int{}, Cases: len(cases),
		Rule: "hooks registered while network instances are created: a C01/C02 history programs entries without hooks; then one instance is kept read-locked by a reader that stalls " +
			"(RIBHolder.GetRIB unread, or server.Get of that instance / of all with a client stream stuck in Send; one case in five: no reader, a free race), SetPostChangeHook and SetResolvedEntryHook " +
			"run in another goroutine (either order / one goroutine each) and the remaining instances are created meanwhile (RIB / server AddNetworkInstance); after the release the history goes on in the new " +
			"and the old instances under the C16 oracle (fold of the notifications over the tables at registration == RIBContents in every instance after every step; one resolved-entry callback per acknowledged " +
			"top-level entry; snapshots immutable); non-trivial = an instance was created while the registration was still waiting and a notification arrived for it afterwards; distinct by the case text"}
	distinct := map[string]bool{}
	for i, c := range cases {
		res := runCase(c)
		for _, p := range res.Problems {
			rep.Violations = append(rep.Violations, drv.Verdict{Case: i, Problem: p})
			break // one verdict per case
		}
		rep.Stats["mode_"+c.Mode]++
		if c.Conc != nil {
			rep.Stats["order_"+c.Conc.Order]++
			rep.Stats[fmt.Sprintf("created_%d", len(c.Conc.Create))]++
		}
		for k, v := range res.Stats {
			rep.Stats[k] += v
		}
		for k, b := range map[string]bool{"cases_with_late_instance_events": res.NewNIEv, "cases_with_flush_events": res.FlushEv,
			"cases_with_resolved_events": res.ResEv, "cases_with_delete_entries": res.DelEnt, "cases_with_cascade": res.Cascade} {
			if b {
				rep.Stats[k]++
			}
		}
		if res.Stats["conc_created_during_registration"] > 0 && res.NewNIEv {
			hs := []string{fmt.Sprintf("%s|%+v", c.Mode, c.Conc)}
			for j, st := range c.Steps {
				if j < len(res.Obs) {
					hs = append(hs, st.coq(res.Obs[j].StepObs))
				}
			}
			distinct[strings.Join(hs, ";")] = true
		}
		if i < 2 {
			txt := []string{fmt.Sprintf("mode=%s conc=%+v", c.Mode, c.Conc)}
			for j, st := range c.Steps {
				if j >= len(res.Obs) {
					break
				}
				o := res.Obs[j]
				evs := []string{}
				for _, e := range o.Hevs {
					evs = append(evs, e.String())
				}
				for _, e := range o.Revs {
					evs = append(evs, fmt.Sprintf("resolved %s %s", e.Op, tkey(e.NI, e.T, e.Key)))
				}
				name := st.coq(o.StepObs)
				if st.K == "concreg" {
					name = "<registration while instances are created>"
				}
				txt = append(txt, fmt.Sprintf("%s => oks=%v fails=%v fatal=%v held=%v callbacks=%v", name, o.Oks, o.Fails, o.Fatal, o.Pend, evs))
			}
			rep.Samples = append(rep.Samples, txt)
		}
	}
	rep.Nontrivial = len(distinct)
	if err := drv.WriteJSON(*f.Out+"/cases.json", cases); err != nil {
		return err
	}
	// oracle only: the sequential model has no interleavings (an empty cases file keeps the check's protocol)
	if err := drv.WriteCasesV(*f.Out, "From Coq Require Import List NArith.\nImport ListNotations.", "N", "(fun _ : list N => @nil N)", nil); err != nil {
		return err
	}
	return drv.WriteJSON(*f.Out+"/impl.json", rep)
}
