package main

// RIB history generator and Coq printers of steps: copied from harness/cmd/vh/rib.go (the C01
// generator), unchanged, so that C16 runs over the same histories.

import (
	"fmt"
	"sort"

	"verifharness/drv"
)

// RStep is one step of a RIB-level history.
type RStep struct {
	K   string      `json:"k"` // add del flush addni hook reshook
	Op  *drv.OpSpec `json:"op,omitempty"`
	NIs []int       `json:"nis,omitempty"`
	NI  int         `json:"ni,omitempty"`
}

// RCase is a RIB-level history.
type RCase struct {
	NoFwd bool    `json:"nofwd"`
	Steps []RStep `json:"steps"`
}

// StepObs is what the implementation did at one step.
type StepObs struct {
	Oks, Fails []uint64
	Fatal      bool
	Pend       []uint64
	FlushErr   bool
	Panic      string
}

func (st RStep) coq(o StepObs) string {
	switch st.K {
	case "add":
		return fmt.Sprintf("IAdd %d %s %s %s", st.Op.NI, st.Op.Coq(), drv.CoqNs(o.Fails), drv.CoqNs(o.Oks))
	case "del":
		return fmt.Sprintf("IDel %d %s", st.Op.NI, st.Op.Coq())
	case "flush":
		ns := []uint64{}
		for _, n := range st.NIs {
			ns = append(ns, uint64(n))
		}
		return "IFlush " + drv.CoqNs(ns)
	case "addni":
		return fmt.Sprintf("IAddNI %d", st.NI)
	case "hook":
		return "ISetHook"
	case "reshook":
		return "ISetResHook"
	}
	return "IAddNI 0"
}

func (o StepObs) coq() string {
	f := append([]uint64{}, o.Fails...)
	sort.Slice(f, func(i, j int) bool { return f[i] < f[j] })
	return fmt.Sprintf("mk_robs %s %s %v %s %v", drv.CoqNs(o.Oks), drv.CoqNs(f), o.Fatal, drv.CoqNs(o.Pend), o.FlushErr)
}

// ---------------------------------------------------------------------------- generator

type ribGen struct {
	hist []drv.OpSpec // earlier ADD / REPLACE operations (to program them again)
	r      *drv.Rng
	nextID uint64
	// what the generator believes is installed (only to bias choices; never used as an oracle)
	nh, nhg map[[2]int]bool
	prof    string
}

func (g *ribGen) id() uint64 { g.nextID++; return g.nextID }

func (g *ribGen) ni() int {
	switch x := g.r.Intn(40); {
	case x < 22:
		return 1
	case x < 30:
		return 2
	case x < 37:
		return 3
	case x < 38:
		return 0
	default:
		return 4
	}
}

func (g *ribGen) small() uint64 {
	if g.r.Chance(1, 40) {
		return 0
	}
	return uint64(1 + g.r.Intn(3))
}

func (g *ribGen) extras(max int) [][2]uint64 {
	x := [][2]uint64{}
	if g.r.Chance(1, 3) {
		x = append(x, [2]uint64{1, uint64(1 + g.r.Intn(max))})
	}
	return x
}

func (g *ribGen) entry(o *drv.OpSpec) {
	malformed := g.prof == "C12" || g.r.Chance(1, 25)
	switch x := g.r.Intn(20); {
	case x < 5:
		o.T = "nh"
		o.Key = g.small()
		o.X = g.extras(3)
		if g.r.Chance(1, 4) {
			o.X = append(o.X, [2]uint64{2, uint64(1 + g.r.Intn(2))})
		}
	case x < 10:
		o.T = "nhg"
		o.Key = g.small()
		n := 1 + g.r.Intn(2)
		if malformed && g.r.Chance(1, 4) {
			n = 0
		}
		ws := map[uint64]uint64{} // a repeated member keeps its weight (else the stored weight depends on Go map order)
		for i := 0; i < n; i++ {
			idx := uint64(1 + g.r.Intn(3))
			if _, ok := ws[idx]; !ok {
				ws[idx] = uint64(1 + g.r.Intn(4))
			}
			o.NHs = append(o.NHs, [2]uint64{idx, ws[idx]})
		}
		if g.r.Chance(1, 6) && len(o.NHs) > 0 { // duplicate member
			o.NHs = append(o.NHs, o.NHs[0]) // same weight: with differing weights the stored one depends on Go map order
		}
		if g.r.Chance(1, 4) {
			o.Bk = uint64(1 + g.r.Intn(4))
		}
		if g.r.Chance(1, 5) {
			o.X = [][2]uint64{{1, uint64(1 + g.r.Intn(3))}}
		}
	default:
		o.T = drv.Pick(g.r, "v4", "v4", "v4", "v6", "mpls")
		switch o.T {
		case "v4":
			o.Key = uint64(1 + g.r.Intn(3))
			if malformed && g.r.Chance(1, 2) {
				o.Key = uint64(11 + g.r.Intn(5))
			}
		case "v6":
			o.Key = drv.Pick(g.r, uint64(1), 2, 1, 2, 1, 2, 5, 6)
			if malformed && g.r.Chance(1, 2) {
				o.Key = uint64(11 + g.r.Intn(4))
			}
		case "mpls":
			o.Key = drv.Pick(g.r, uint64(100), 200, 16, 1048575)
			if malformed && g.r.Chance(1, 2) {
				o.Key = drv.Pick(g.r, uint64(15), 0, 1048576, 1<<32+100, 1<<32+5)
			}
		}
		o.NHG = g.small()
		if g.r.Chance(1, 3) {
			o.NHGN = drv.Pick(g.r, 1, 2, 3, 2, 3, 1)
			if malformed && g.r.Chance(1, 6) {
				o.NHGN = 4
			}
		}
		o.X = g.extras(3)
		if o.T != "mpls" && g.r.Chance(1, 6) {
			o.X = append(o.X, [2]uint64{2, uint64(1 + g.r.Intn(3))})
		}
	}
	if malformed && g.r.Chance(1, 8) {
		o.Nil = true
		o.NHG, o.NHGN, o.NHs, o.Bk, o.X = 0, 0, nil, 0, nil
	}
}

func (g *ribGen) step() RStep {
	if g.r.Chance(1, 50) {
		// the configuration is applied again: a network instance that exists already (refused, nothing changes)
		return RStep{K: "addni", NI: drv.Pick(g.r, 1, 2, 3)}
	}
	switch x := g.r.Intn(100); {
	case x < 3:
		if g.r.Chance(1, 2) {
			return RStep{K: "flush", NIs: []int{1, 2, 3}}
		}
		return RStep{K: "flush", NIs: [][]int{{1}, {2}, {3}, {1, 2}, {2, 3}}[g.r.Intn(5)]}
	}
	if len(g.hist) > 0 && g.r.Chance(1, 12) {
		// an earlier operation's key is deleted (exactly as it was spelled)
		h := g.hist[g.r.Intn(len(g.hist))]
		return RStep{K: "del", Op: &drv.OpSpec{ID: g.id(), NI: h.NI, Kind: "DELETE", T: h.T, Key: h.Key}}
	}
	if len(g.hist) > 0 && g.r.Chance(1, 6) {
		// an earlier operation is programmed again: identical, with leaves removed, or with one leaf changed
		o := g.hist[g.r.Intn(len(g.hist))]
		for try := 0; try < 4 && len(o.X) == 0 && o.NHGN == 0 && o.Bk == 0; try++ { // prefer one that has optional leaves
			o = g.hist[g.r.Intn(len(g.hist))]
		}
		o.ID = g.id()
		o.Kind = drv.Pick(g.r, "ADD", "ADD", "REPLACE")
		switch g.r.Intn(4) {
		case 0:
		case 1, 2: // only removes leaves
			if len(o.X) > 0 {
				o.X = append([][2]uint64{}, o.X[:g.r.Intn(len(o.X))]...)
			}
			if g.r.Chance(1, 2) {
				o.Bk = 0
			}
			if o.NHGN == o.NI {
				o.NHGN = 0 // the same instance, named or not
			}
			if len(o.NHs) > 1 && g.r.Chance(1, 2) {
				o.NHs = append([][2]uint64{}, o.NHs[:1]...)
			}
		default:
			if len(o.X) > 0 {
				x := append([][2]uint64{}, o.X...)
				x[0][1] = 1 + x[0][1]%2
				o.X = x
			} else if o.T == "nhg" {
				o.Bk = uint64(1 + g.r.Intn(3))
			}
		}
		return RStep{K: "add", Op: &o}
	}
	o := &drv.OpSpec{ID: g.id(), NI: g.ni()}
	g.entry(o)
	k := "add"
	switch x := g.r.Intn(100); {
	case x < 55:
		o.Kind = "ADD"
	case x < 70:
		o.Kind = "REPLACE"
	default:
		o.Kind = "DELETE"
		k = "del"
	}
	if g.r.Chance(1, 200) {
		o.T = "none"
	}
	if k == "add" && !o.Nil && o.T != "none" {
		g.hist = append(g.hist, *o)
	}
	return RStep{K: k, Op: o}
}

// dagCase: a dependency graph NH <- NHG <- top-level entries (cross-NI references) whose
// operations arrive in a random order, some dependencies deleted and re-added, some never.
func (g *ribGen) dagCase() RCase {
	c := RCase{NoFwd: g.r.Chance(1, 5), Steps: []RStep{{K: "addni", NI: 2}, {K: "addni", NI: 3}}}
	var ops []RStep
	nis := []int{1, 2, 3}
	for _, n := range nis {
		if g.r.Chance(1, 3) && n != 1 {
			continue
		}
		nnh := 1 + g.r.Intn(3)
		for i := 1; i <= nnh; i++ {
			if g.r.Chance(5, 6) {
				ops = append(ops, RStep{K: "add", Op: &drv.OpSpec{NI: n, Kind: "ADD", T: "nh", Key: uint64(i), X: g.extras(3)}})
			}
		}
		for gi := 1; gi <= 1+g.r.Intn(2); gi++ {
			o := &drv.OpSpec{NI: n, Kind: "ADD", T: "nhg", Key: uint64(gi)}
			for j := 0; j < 1+g.r.Intn(2); j++ {
				o.NHs = append(o.NHs, [2]uint64{uint64(1 + g.r.Intn(nnh)), 1})
			}
			ops = append(ops, RStep{K: "add", Op: o})
		}
	}
	for i := 0; i < 2+g.r.Intn(4); i++ {
		o := &drv.OpSpec{NI: drv.Pick(g.r, nis...), Kind: drv.Pick(g.r, "ADD", "ADD", "ADD", "REPLACE"), T: drv.Pick(g.r, "v4", "v6", "mpls"), NHG: uint64(1 + g.r.Intn(2))}
		switch o.T {
		case "v4":
			o.Key = uint64(1 + g.r.Intn(3))
		case "v6":
			o.Key = uint64(1 + g.r.Intn(2))
		default:
			o.Key = drv.Pick(g.r, uint64(100), 200)
		}
		if g.r.Chance(1, 3) {
			o.NHGN = drv.Pick(g.r, nis...)
		}
		ops = append(ops, RStep{K: "add", Op: o})
	}
	// deletes / re-adds of dependencies
	for i := 0; i < g.r.Intn(4); i++ {
		src := ops[g.r.Intn(len(ops))].Op
		d := *src
		d.Kind = "DELETE"
		ops = append(ops, RStep{K: "del", Op: &d})
		if g.r.Chance(1, 2) {
			a := *src
			ops = append(ops, RStep{K: "add", Op: &a})
		}
	}
	g.r.Shuffle(len(ops), func(i, j int) { ops[i], ops[j] = ops[j], ops[i] })
	for _, s := range ops {
		s.Op.ID = g.id()
		c.Steps = append(c.Steps, s)
	}
	if g.r.Chance(1, 4) {
		c.Steps = append(c.Steps, RStep{K: "flush", NIs: []int{1, 2, 3}})
	}
	return c
}

func genRCase(r *drv.Rng, prof string) RCase {
	g := &ribGen{r: r, prof: prof}
	if prof == "C02" && r.Chance(3, 4) {
		return g.dagCase()
	}
	c := RCase{NoFwd: r.Chance(1, 6)}
	c.Steps = append(c.Steps, RStep{K: "addni", NI: 2}, RStep{K: "addni", NI: 3})
	n := 5 + r.Intn(30)
	for i := 0; i < n; i++ {
		c.Steps = append(c.Steps, g.step())
	}
	return c
}
