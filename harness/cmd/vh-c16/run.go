package main

import (
	"fmt"
	"reflect"
	"runtime"
	"sort"
	"strings"
	"sync"
	"time"

	"verifharness/drv"

	"github.com/openconfig/gribigo/aft"
	"github.com/openconfig/gribigo/constants"
	"github.com/openconfig/gribigo/rib"
	"github.com/openconfig/gribigo/server"
	"github.com/openconfig/ygot/ygot"
)

// HCase is one C16 case: a RIB-level history in which "hook" / "reshook" / "addni" steps occur at
// any position.  Mode "rib" executes every step on a rib.RIB made by rib.New; mode "server" gives the
// leading configuration steps (hook, reshook, addni... in the order server.New applies them) to
// server.New as options and executes the rest on the server's RIB.
type HCase struct {
	Mode  string  `json:"mode"`
	Shape string  `json:"shape,omitempty"` // generator's placement of the configuration steps (statistics only)
	NoFwd bool    `json:"nofwd"`
	Steps []RStep `json:"steps"`
	// Conc: parameters of the "concreg" step (sub-command c16conc, conc.go): the hooks are registered
	// while network instances are created
	Conc *ConcSpec `json:"conc,omitempty"`
}

// ---------------------------------------------------------------------------- rendering ygot structs

func revKey[V comparable](m map[uint64]V, v V) uint64 {
	for k, x := range m {
		if x == v {
			return k
		}
	}
	return 999
}

func xsTop(md []byte, decap int64) [][2]uint64 {
	x := [][2]uint64{}
	if md != nil {
		c := uint64(999)
		for k, v := range drv.MetaVals {
			if string(v) == string(md) {
				c = k
			}
		}
		x = append(x, [2]uint64{1, c})
	}
	if decap != 0 {
		x = append(x, [2]uint64{2, uint64(decap)})
	}
	return x
}

func coqX(x [][2]uint64) string {
	s := []string{}
	for _, p := range x {
		s = append(s, fmt.Sprintf("(%d%%N, %d%%N)", p[0], p[1]))
	}
	return drv.CoqList(s)
}

func labelOf(l aft.Afts_LabelEntry_Label_Union) uint64 {
	if u, ok := l.(aft.UnionUint32); ok {
		return uint64(u)
	}
	return 999999999
}

// rendered is one stored entry in the two vocabularies used here: the oracle's text (the same as
// payloadText of an operation) and the model's Gallina term.
type rendered struct {
	T       string // v4 v6 mpls nhg nh
	Key     uint64
	Text    string
	CoqKey  string // skey
	CoqEnt  string // sentry
	CoqKey0 string // skey with the key blanked (typed nil)
}

func renderTop(t string, key uint64, nhg uint64, nhgni string, md []byte, decap int64) rendered {
	tk := map[string]string{"v4": "T4", "v6": "T6", "mpls": "TL"}[t]
	x := xsTop(md, decap)
	return rendered{T: t, Key: key,
		Text:   fmt.Sprintf("top nhg=%d ni=%d x=%v", nhg, drv.NICode(nhgni), x),
		CoqKey: fmt.Sprintf("(KTop %s %d)", tk, key), CoqKey0: fmt.Sprintf("(KTop %s 0)", tk),
		CoqEnt: fmt.Sprintf("(STop %s %d (mk_top %d %d %s))", tk, key, nhg, drv.NICode(nhgni), coqX(x))}
}

func renderV4(e *aft.Afts_Ipv4Entry) rendered {
	return renderTop("v4", revKey(drv.V4Keys, e.GetPrefix()), e.GetNextHopGroup(), e.GetNextHopGroupNetworkInstance(), e.EntryMetadata, int64(e.DecapsulateHeader))
}
func renderV6(e *aft.Afts_Ipv6Entry) rendered {
	return renderTop("v6", revKey(drv.V6Keys, e.GetPrefix()), e.GetNextHopGroup(), e.GetNextHopGroupNetworkInstance(), e.EntryMetadata, int64(e.DecapsulateHeader))
}
func renderMPLS(e *aft.Afts_LabelEntry) rendered {
	return renderTop("mpls", labelOf(e.GetLabel()), e.GetNextHopGroup(), e.GetNextHopGroupNetworkInstance(), e.EntryMetadata, 0)
}
func renderNHG(g *aft.Afts_NextHopGroup) rendered {
	ks := []uint64{}
	for k := range g.NextHop {
		ks = append(ks, k)
	}
	sort.Slice(ks, func(i, j int) bool { return ks[i] < ks[j] })
	s, nhs := "", [][2]uint64{}
	for _, k := range ks {
		s += fmt.Sprintf("%d:%d,", k, g.NextHop[k].GetWeight())
		nhs = append(nhs, [2]uint64{k, g.NextHop[k].GetWeight()})
	}
	x := [][2]uint64{}
	if g.Color != nil {
		x = append(x, [2]uint64{1, *g.Color})
	}
	return rendered{T: "nhg", Key: g.GetId(),
		Text:   fmt.Sprintf("grp nhs=%s bk=%d x=%v", s, g.GetBackupNextHopGroup(), x),
		CoqKey: fmt.Sprintf("(KGrp %d)", g.GetId()), CoqKey0: "(KGrp 0)",
		CoqEnt: fmt.Sprintf("(SGrp %d (mk_grp %s %d %s))", g.GetId(), coqX(nhs), g.GetBackupNextHopGroup(), coqX(x))}
}
func renderNH(nh *aft.Afts_NextHop) rendered {
	x := [][2]uint64{}
	if nh.IpAddress != nil {
		x = append(x, [2]uint64{1, revKey(drv.IPVals, *nh.IpAddress)})
	}
	if nh.MacAddress != nil {
		x = append(x, [2]uint64{2, revKey(drv.MACVals, *nh.MacAddress)})
	}
	if nh.PopTopLabel != nil {
		x = append(x, [2]uint64{3, map[bool]uint64{true: 1, false: 2}[*nh.PopTopLabel]})
	}
	if len(nh.EncapHeader) > 0 {
		x = append(x, [2]uint64{4, uint64(len(nh.EncapHeader))})
	}
	return rendered{T: "nh", Key: nh.GetIndex(),
		Text:   fmt.Sprintf("nh x=%v", x),
		CoqKey: fmt.Sprintf("(KNh %d)", nh.GetIndex()), CoqKey0: "(KNh 0)",
		CoqEnt: fmt.Sprintf("(SNh %d (mk_nh %s))", nh.GetIndex(), coqX(x))}
}

// renderStruct renders the struct a post-change callback received; isNil reports a typed nil.
func renderStruct(v ygot.ValidatedGoStruct) (r rendered, isNil bool, ok bool) {
	switch e := v.(type) {
	case *aft.Afts_Ipv4Entry:
		if e == nil {
			return rendered{T: "v4", CoqKey0: "(KTop T4 0)"}, true, true
		}
		return renderV4(e), false, true
	case *aft.Afts_Ipv6Entry:
		if e == nil {
			return rendered{T: "v6", CoqKey0: "(KTop T6 0)"}, true, true
		}
		return renderV6(e), false, true
	case *aft.Afts_LabelEntry:
		if e == nil {
			return rendered{T: "mpls", CoqKey0: "(KTop TL 0)"}, true, true
		}
		return renderMPLS(e), false, true
	case *aft.Afts_NextHopGroup:
		if e == nil {
			return rendered{T: "nhg", CoqKey0: "(KGrp 0)"}, true, true
		}
		return renderNHG(e), false, true
	case *aft.Afts_NextHop:
		if e == nil {
			return rendered{T: "nh", CoqKey0: "(KNh 0)"}, true, true
		}
		return renderNH(e), false, true
	}
	return rendered{}, v == nil, false
}

type tables map[string]string // "ni|table|key" -> payload text

func tkey(ni int, t string, key uint64) string { return fmt.Sprintf("%d|%s|%d", ni, t, key) }

// textOf renders RIB contents (RIBContents or a snapshot) in the oracle's vocabulary.
func textOf(c map[string]*aft.RIB) tables {
	out := tables{}
	for name, rr := range c {
		n := drv.NICode(name)
		a := rr.GetAfts()
		if a == nil {
			continue
		}
		put := func(r rendered) { out[tkey(n, r.T, r.Key)] = r.Text }
		for _, e := range a.Ipv4Entry {
			put(renderV4(e))
		}
		for _, e := range a.Ipv6Entry {
			put(renderV6(e))
		}
		for _, e := range a.LabelEntry {
			put(renderMPLS(e))
		}
		for _, g := range a.NextHopGroup {
			put(renderNHG(g))
		}
		for _, nh := range a.NextHop {
			put(renderNH(nh))
		}
	}
	return out
}

func diffTables(want, got tables, wantName, gotName string) string {
	var d []string
	for k, v := range want {
		if g, ok := got[k]; !ok {
			d = append(d, fmt.Sprintf("%s has %s = %s, %s lacks it", wantName, k, v, gotName))
		} else if g != v {
			d = append(d, fmt.Sprintf("%s: %s has %s, %s has %s", k, wantName, v, gotName, g))
		}
	}
	for k, v := range got {
		if _, ok := want[k]; !ok {
			d = append(d, fmt.Sprintf("%s has %s = %s, %s lacks it", gotName, k, v, wantName))
		}
	}
	sort.Strings(d)
	return strings.Join(d, "; ")
}

// payloadText renders an operation's payload in the oracle's vocabulary (as cmd/vh's C01 oracle).
func payloadText(o drv.OpSpec) string {
	switch o.T {
	case "v4", "v6", "mpls":
		x := o.X
		if x == nil {
			x = [][2]uint64{}
		}
		return fmt.Sprintf("top nhg=%d ni=%d x=%v", o.NHG, o.NHGN, x)
	}
	return "?"
}

// ---------------------------------------------------------------------------- collecting the callbacks

type hookEv struct {
	Add   bool
	NI    int
	R     rendered
	Nil   bool
	Known bool // a struct type the harness understands
	Op    string
}

func (e hookEv) coq() string {
	switch {
	case e.Add:
		return fmt.Sprintf("HAdd %d %s", e.NI, e.R.CoqEnt)
	case e.Nil:
		return fmt.Sprintf("HDel %d %s None", e.NI, e.R.CoqKey0)
	}
	return fmt.Sprintf("HDel %d %s (Some %s)", e.NI, e.R.CoqKey, e.R.CoqEnt)
}

func (e hookEv) String() string {
	op := "DELETE"
	if e.Add {
		op = "ADD"
	}
	if e.Nil {
		return fmt.Sprintf("%s %s %s <nil>", op, drv.NINames[e.NI], e.R.T)
	}
	return fmt.Sprintf("%s %s %s %d {%s}", op, drv.NINames[e.NI], e.R.T, e.R.Key, e.R.Text)
}

type resEv struct {
	Add     bool
	NI      int
	T       string
	Key     uint64
	Ribs    map[string]*aft.RIB // the snapshot as handed to the callback (kept, re-inspected later)
	Copy    map[string]*aft.RIB // our own deep copy taken at arrival
	Text    tables              // rendered at arrival
	SnapCoq string              // rendered at arrival
	Op      string
}

func (e resEv) coq() string {
	tk := map[string]string{"v4": "T4", "v6": "T6", "mpls": "TL"}[e.T]
	if tk == "" {
		tk = "T4"
	}
	return fmt.Sprintf("mk_rv %v %d %s %d %s", e.Add, e.NI, tk, e.Key, e.SnapCoq)
}

type collector struct {
	mu   sync.Mutex
	hevs []hookEv
	revs []resEv
}

func (c *collector) postChange(op constants.OpType, _ int64, ni string, v ygot.ValidatedGoStruct) {
	// called synchronously by the RIB, possibly with the network instance's lock held: only record
	r, isNil, known := renderStruct(v)
	c.mu.Lock()
	defer c.mu.Unlock()
	c.hevs = append(c.hevs, hookEv{Add: op == constants.Add, NI: drv.NICode(ni), R: r, Nil: isNil, Known: known && (op == constants.Add || op == constants.Delete), Op: op.String()})
}

func (c *collector) resolved(ribs map[string]*aft.RIB, op constants.OpType, ni string, a constants.AFT, key any, _ ...rib.ResolvedDetails) {
	// called in its own goroutine
	e := resEv{Add: op == constants.Add, NI: drv.NICode(ni), Ribs: ribs, Op: op.String()}
	switch a {
	case constants.IPv4:
		e.T = "v4"
		if s, ok := key.(string); ok {
			e.Key = revKey(drv.V4Keys, s)
		} else {
			e.Key = 999
		}
	case constants.IPv6:
		e.T = "v6"
		if s, ok := key.(string); ok {
			e.Key = revKey(drv.V6Keys, s)
		} else {
			e.Key = 999
		}
	case constants.MPLS:
		e.T = "mpls"
		switch k := key.(type) {
		case uint64:
			e.Key = k
		case uint32:
			e.Key = uint64(k)
		case aft.UnionUint32:
			e.Key = uint64(k)
		default:
			e.Key = 999999999
		}
	default:
		e.T = "?"
	}
	e.Copy = map[string]*aft.RIB{}
	for n, rr := range ribs {
		if d, err := ygot.DeepCopy(rr); err == nil {
			e.Copy[n] = d.(*aft.RIB)
		}
	}
	e.Text = textOf(ribs)
	e.SnapCoq = drv.CanonCoq(drv.Canon(ribs), nil)
	c.mu.Lock()
	defer c.mu.Unlock()
	c.revs = append(c.revs, e)
}

func (c *collector) counts() (int, int) {
	c.mu.Lock()
	defer c.mu.Unlock()
	return len(c.hevs), len(c.revs)
}

// ---------------------------------------------------------------------------- running a case

// HStepObs is what the implementation did at one step: answers and callbacks.
type HStepObs struct {
	StepObs
	Hevs []hookEv
	Revs []resEv
}

func (o HStepObs) coq() string {
	hs, rs := []string{}, []string{}
	for _, e := range o.Hevs {
		hs = append(hs, e.coq())
	}
	for _, e := range o.Revs {
		rs = append(rs, e.coq())
	}
	return fmt.Sprintf("(%s, %s, %s)", o.StepObs.coq(), drv.CoqList(hs), drv.CoqList(rs))
}

// splitServerPrefix returns the leading configuration steps that server.New can express (it registers
// the post-change hook, then the resolved-entry hook, then creates the VRFs) and the remaining steps.
func splitServerPrefix(steps []RStep) (hook, res bool, vrfs []string, n int) {
	phase := 0
	seen := map[int]bool{1: true}
	for n < len(steps) {
		st := steps[n]
		switch {
		case st.K == "hook" && phase == 0:
			hook, phase = true, 1
		case st.K == "reshook" && phase <= 1:
			res, phase = true, 2
		case st.K == "addni" && st.NI >= 2 && st.NI <= 3 && !seen[st.NI]:
			seen[st.NI] = true
			vrfs = append(vrfs, drv.NINames[st.NI])
			phase = 3
		default:
			return
		}
		n++
	}
	return
}

const watchdog = 3 * time.Second

type runResult struct {
	Obs      []HStepObs
	RIB      *rib.RIB
	Problems []string // oracle verdicts (model-free)
	Stats    map[string]int
	NewNIEv  bool // a notification arrived for an instance created after registration
	DelEnt   bool // a DELETE notification carried an entry
	Cascade  bool
	FlushEv  bool
	ResEv    bool
}

// runCase executes the case and evaluates the oracle of C16 on what the real code did.
func runCase(c HCase) (res runResult) {
	res.Stats = map[string]int{}
	col := &collector{}
	problem := func(f string, a ...any) {
		if len(res.Problems) < 5 {
			res.Problems = append(res.Problems, fmt.Sprintf(f, a...))
		}
	}
	var r *rib.RIB
	var srv *server.Server // mode server
	start := 0
	hookSet, resSet := false, false
	if c.Mode == "server" {
		hook, rh, vrfs, n := splitServerPrefix(c.Steps)
		opts := []server.ServerOpt{}
		if c.NoFwd {
			opts = append(opts, server.WithNoRIBForwardReferences())
		}
		// WithVRFs first, the hooks last: server.New's behaviour must not depend on the option order
		if vrfs != nil {
			opts = append(opts, server.WithVRFs(vrfs))
		}
		if rh {
			opts = append(opts, server.WithRIBResolvedEntryHook(col.resolved))
		}
		if hook {
			opts = append(opts, server.WithPostChangeRIBHook(col.postChange))
		}
		s, err := server.New(opts...)
		if err != nil {
			problem("server.New: %v", err)
			return
		}
		r, srv = s.VerifRIB(), s
		hookSet, resSet = hook, rh
		start = n
		for i := 0; i < n; i++ {
			res.Obs = append(res.Obs, HStepObs{StepObs: StepObs{Pend: []uint64{}}})
		}
	} else {
		opts := []rib.RIBOpt{}
		if c.NoFwd {
			opts = append(opts, rib.DisableForwardReferences())
		}
		r = rib.New("DEFAULT", opts...)
	}
	res.RIB = r

	contents := func() tables {
		cc, err := r.RIBContents()
		if err != nil {
			problem("RIBContents: %v", err)
			return tables{}
		}
		return textOf(cc)
	}
	// the consumer: starts from the tables as they are when the hook is registered
	var cons tables
	if hookSet {
		cons = contents()
	}
	lateNI := map[int]bool{} // instances created after registration
	ops := map[uint64]drv.OpSpec{}
	hSeen, rSeen := 0, 0

	for i := start; i < len(c.Steps); i++ {
		st := c.Steps[i]
		var o HStepObs
		before := tables{}
		if resSet {
			before = contents()
		}
		if st.Op != nil {
			ops[st.Op.ID] = *st.Op
		}
		func() {
			defer func() {
				if e := recover(); e != nil {
					o.Panic = fmt.Sprint(e)
				}
			}()
			switch st.K {
			case "add", "del":
				if st.Op == nil {
					return
				}
				var oks, fails []*rib.OpResult
				var err error
				if st.K == "del" {
					oks, fails, err = r.DeleteEntry(drv.NINames[st.Op.NI], st.Op.Proto())
				} else {
					oks, fails, err = r.AddEntry(drv.NINames[st.Op.NI], st.Op.Proto())
				}
				o.Oks, o.Fails, o.Fatal = drv.IDs(oks), drv.IDs(fails), err != nil
				if err != nil {
					o.Oks, o.Fails = nil, nil
				}
			case "flush":
				names := []string{}
				for _, n := range st.NIs {
					if _, ok := r.NetworkInstanceRIB(drv.NINames[n]); ok {
						names = append(names, drv.NINames[n])
					}
				}
				o.FlushErr = r.Flush(names) != nil
			case "addni":
				if _, exists := r.NetworkInstanceRIB(drv.NINames[st.NI]); !exists && hookSet {
					lateNI[st.NI] = true
				}
				r.AddNetworkInstance(drv.NINames[st.NI])
			case "hook":
				r.SetPostChangeHook(col.postChange)
				if !hookSet {
					hookSet = true
					cons = contents()
				}
			case "reshook":
				r.SetResolvedEntryHook(col.resolved)
				resSet = true
			case "concreg":
				if c.Conc == nil {
					return
				}
				created, cst, probs := concRegister(r, srv, col, *c.Conc)
				for k, v := range cst {
					res.Stats[k] += v
				}
				for _, p := range probs {
					problem("step %d (concreg): %s", i, p)
				}
				for _, n := range created {
					lateNI[n] = true
				}
				resSet = true
				if !hookSet {
					hookSet = true
					cons = contents()
				}
			}
		}()
		o.Pend = r.VerifPendingIDs()
		if o.Panic != "" {
			problem("step %d: panic %s", i, o.Panic)
		}
		if len(o.Oks) > 1 {
			res.Cascade = true
		}

		// how many resolved-entry callbacks this step owes (they run in their own goroutines)
		expect := 0
		if resSet && st.Op != nil {
			switch st.K {
			case "add":
				for _, id := range o.Oks {
					switch ops[id].T {
					case "v4", "v6", "mpls":
						expect++
					}
				}
			case "del":
				switch st.Op.T {
				case "v4", "v6", "mpls":
					if _, was := before[tkey(st.Op.NI, st.Op.T, st.Op.Key)]; was && len(o.Oks) == 1 {
						expect++
					}
				}
			}
		}
		deadline := time.Now().Add(watchdog)
		for {
			_, nr := col.counts()
			if nr-rSeen >= expect || time.Now().After(deadline) {
				break
			}
			time.Sleep(20 * time.Microsecond)
		}
		for k := 0; k < 3; k++ { // give a surplus callback a chance to show up
			runtime.Gosched()
		}
		col.mu.Lock()
		o.Hevs = append([]hookEv{}, col.hevs[hSeen:]...)
		o.Revs = append([]resEv{}, col.revs[rSeen:]...)
		hSeen, rSeen = len(col.hevs), len(col.revs)
		col.mu.Unlock()
		res.Obs = append(res.Obs, o)
		res.Stats["hook_events"] += len(o.Hevs)
		res.Stats["resolved_events"] += len(o.Revs)

		// ---- oracle (1): the fold of the post-change callbacks is the installed RIB
		if len(o.Hevs) > 0 && !hookSet {
			problem("step %d (%s): %d post-change callbacks before any hook was registered", i, st.K, len(o.Hevs))
		}
		for _, e := range o.Hevs {
			if !e.Known {
				problem("step %d (%s): post-change callback with an unexpected operation/struct: %s", i, st.K, e.Op)
				continue
			}
			if lateNI[e.NI] {
				res.NewNIEv = true
			}
			if st.K == "flush" {
				res.FlushEv = true
			}
			switch {
			case e.Add:
				res.Stats["ev_add_"+e.R.T]++
				if e.Nil {
					problem("step %d (%s): ADD notification without an entry", i, st.K)
					continue
				}
				cons[tkey(e.NI, e.R.T, e.R.Key)] = e.R.Text
			case e.Nil:
				res.Stats["ev_del_nil_"+e.R.T]++ // nothing was installed under the key: nothing to do
			default:
				res.Stats["ev_del_"+e.R.T]++
				res.DelEnt = true
				k := tkey(e.NI, e.R.T, e.R.Key)
				if held, ok := cons[k]; !ok {
					problem("step %d (%s): DELETE notification carries %s but the fold of the earlier notifications holds nothing under %s", i, st.K, e, k)
				} else if held != e.R.Text {
					problem("step %d (%s): DELETE notification carries %s but the fold of the earlier notifications holds {%s}", i, st.K, e, held)
				}
				delete(cons, k)
			}
		}
		if hookSet {
			if d := diffTables(cons, contents(), "the fold of the notifications", "RIBContents"); d != "" {
				problem("step %d (%s): the fold of the post-change notifications differs from the installed entries: %s", i, st.K, d)
			}
		}

		// ---- oracle (2): resolved-entry callbacks: one per resolved top-level entry, snapshot contains / lacks the key
		if len(o.Revs) != expect {
			problem("step %d (%s): %d resolved-entry callbacks within %v, %d expected (acknowledged top-level entries)", i, st.K, len(o.Revs), watchdog, expect)
		}
		for _, e := range o.Revs {
			res.ResEv = true
			k := tkey(e.NI, e.T, e.Key)
			got, has := e.Text[k]
			switch {
			case e.Op != "Add" && e.Op != "Delete":
				problem("step %d (%s): resolved-entry callback with operation %s", i, st.K, e.Op)
			case e.Add:
				res.Stats["res_add"]++
				if !has {
					problem("step %d (%s): resolved-entry ADD for %s: the snapshot lacks the key", i, st.K, k)
					break
				}
				match := false
				for _, id := range o.Oks {
					op := ops[id]
					if tkey(op.NI, op.T, op.Key) == k && payloadText(op) == got {
						match = true
					}
				}
				if !match {
					problem("step %d (%s): resolved-entry ADD for %s: the snapshot binds it to {%s}, which is the payload of no operation on that key acknowledged by this call", i, st.K, k, got)
				}
			default:
				res.Stats["res_del"]++
				if has {
					problem("step %d (%s): resolved-entry DELETE for %s: the snapshot still binds the key to {%s}", i, st.K, k, got)
				}
			}
		}
	}

	// stragglers
	time.Sleep(200 * time.Microsecond)
	if nh, nr := col.counts(); nh != hSeen || nr != rSeen {
		problem("after the history: %d post-change and %d resolved-entry callbacks arrived after their step was over", nh-hSeen, nr-rSeen)
	}
	// ---- oracle (3): every snapshot handed out is unaffected by the later changes
	for _, o := range res.Obs {
		for _, e := range o.Revs {
			if d := diffTables(e.Text, textOf(e.Ribs), "the snapshot at arrival", "the snapshot at the end"); d != "" {
				problem("resolved-entry snapshot (%s %s) changed after it was handed out: %s", e.Op, tkey(e.NI, e.T, e.Key), d)
				continue
			}
			if len(e.Copy) != len(e.Ribs) {
				problem("resolved-entry snapshot (%s %s) changed its set of network instances", e.Op, tkey(e.NI, e.T, e.Key))
				continue
			}
			for n, rr := range e.Ribs {
				if !reflect.DeepEqual(rr, e.Copy[n]) {
					problem("resolved-entry snapshot (%s %s): network instance %s differs from the deep copy taken at arrival", e.Op, tkey(e.NI, e.T, e.Key), n)
				}
			}
		}
	}
	return
}

// ---------------------------------------------------------------------------- generator: placing the configuration

var shapes = []string{"before", "after", "server", "server", "mid", "late-ni", "server-late"}

func genHCase(r *drv.Rng) HCase {
	prof := drv.Pick(r, "C01", "C02", "C02")
	base := genRCase(r, prof)
	body := []RStep{}
	maxID := uint64(0)
	for _, s := range base.Steps {
		if s.K != "addni" {
			body = append(body, s)
		}
		if s.Op != nil && s.Op.ID > maxID {
			maxID = s.Op.ID
		}
	}
	// tail: DELETE (and sometimes re-ADD with another payload) of top-level entries sent earlier, so that
	// DELETE notifications with an entry and resolved-entry DELETE callbacks are frequent
	if r.Chance(2, 3) {
		tops := []*drv.OpSpec{}
		for _, s := range body {
			if s.Op != nil && s.K == "add" && (s.Op.T == "v4" || s.Op.T == "v6" || s.Op.T == "mpls") && !s.Op.Nil {
				tops = append(tops, s.Op)
			}
		}
		for k := 0; k < 3 && len(tops) > 0; k++ {
			src := tops[r.Intn(len(tops))]
			d := *src
			maxID++
			d.ID, d.Kind = maxID, "DELETE"
			body = append(body, RStep{K: "del", Op: &d})
			if r.Chance(1, 2) {
				a := *src
				maxID++
				a.ID, a.Kind = maxID, "ADD"
				a.X = [][2]uint64{{1, uint64(1 + r.Intn(3))}}
				body = append(body, RStep{K: "add", Op: &a})
			}
		}
		if r.Chance(1, 4) {
			body = append(body, RStep{K: "flush", NIs: [][]int{{1, 2, 3}, {2}, {1}, {3}}[r.Intn(4)]})
		}
	}
	c := HCase{Mode: "rib", NoFwd: base.NoFwd, Shape: drv.Pick(r, shapes...)}
	resHook := r.Chance(7, 8)
	cfg := func(ks ...string) []RStep {
		out := []RStep{}
		for _, k := range ks {
			switch k {
			case "hook":
				out = append(out, RStep{K: "hook"})
			case "reshook":
				if resHook {
					out = append(out, RStep{K: "reshook"})
				}
			case "ni2":
				out = append(out, RStep{K: "addni", NI: 2})
			case "ni3":
				out = append(out, RStep{K: "addni", NI: 3})
			}
		}
		return out
	}
	cut := func() int { return r.Intn(len(body)/2 + 1) } // the configuration step goes into the first half
	switch c.Shape {
	case "before": // SetPostChangeHook, then AddNetworkInstance
		c.Steps = append(cfg("hook", "reshook", "ni2", "ni3"), body...)
	case "after": // AddNetworkInstance, then SetPostChangeHook
		c.Steps = append(cfg("ni2", "ni3", "reshook", "hook"), body...)
	case "server": // server.New(WithPostChangeRIBHook, WithRIBResolvedEntryHook, WithVRFs)
		c.Mode = "server"
		c.Steps = append(cfg("hook", "reshook", "ni2", "ni3"), body...)
	case "mid": // registration in the middle of the history, over a non-empty RIB
		k := cut()
		c.Steps = append(cfg("ni2", "ni3"), body[:k]...)
		c.Steps = append(c.Steps, cfg("hook", "reshook")...)
		c.Steps = append(c.Steps, body[k:]...)
	case "late-ni": // an instance created while operations are already flowing
		k := cut()
		c.Steps = append(cfg("hook", "reshook", "ni2"), body[:k]...)
		c.Steps = append(c.Steps, cfg("ni3")...)
		c.Steps = append(c.Steps, body[k:]...)
	case "server-late": // server.New with one VRF, the other one added to the server's RIB later
		c.Mode = "server"
		k := cut()
		c.Steps = append(cfg("hook", "reshook", "ni2"), body[:k]...)
		c.Steps = append(c.Steps, cfg("ni3")...)
		c.Steps = append(c.Steps, body[k:]...)
	}
	if r.Chance(1, 3) && len(c.Steps) > 6 {
		// the configuration is applied again later on: AddNetworkInstance of an instance that exists (refused: nothing
		// changes, nothing is to be notified)
		k := len(c.Steps)/2 + r.Intn(len(c.Steps)/2)
		c.Steps = append(append(append([]RStep{}, c.Steps[:k]...), RStep{K: "addni", NI: drv.Pick(r, 2, 3, 2, 3, 1)}), c.Steps[k:]...)
	}
	if r.Chance(1, 10) { // registering the same hook again is harmless
		k := r.Intn(len(c.Steps) + 1)
		c.Steps = append(append(append([]RStep{}, c.Steps[:k]...), RStep{K: "hook"}), c.Steps[k:]...)
		if c.Mode == "server" && k < 4 {
			c.Mode = "rib" // keep the prefix expressible by server.New
		}
	}
	return c
}

// ---------------------------------------------------------------------------- command

func runC16(args []string) error {
	f := drv.NewFlags("C16")
	if err := f.Parse(args); err != nil {
		return err
	}
	r := drv.NewRng(*f.Seed)
	var cases []HCase
	if *f.Replay != "" {
		if err := drv.ReadJSON(*f.Replay, &cases); err != nil {
			return err
		}
	} else {
		for i := 0; i < *f.N; i++ {
			cases = append(cases, genHCase(r))
		}
	}
	rep := drv.Report{Property: "C16", Seed: *f.Seed, Shard: drv.ShardSize, Stats: map[string]int{}, Cases: len(cases),
		Rule: "C01/C02 histories (ADD/REPLACE/DELETE over 5 entry kinds, 3 network instances, cross-instance references, held operations, flushes, both forward-reference modes) with the post-change and resolved-entry hooks registered before / after / between AddNetworkInstance calls, through rib.RIB.SetPostChangeHook and through server.New options; " +
			"non-trivial = a notification arrived for a network instance created after the hook was registered, a cascade acknowledged a held operation, a DELETE notification carried an entry, and a resolved-entry callback fired; distinct by mode + canonical history text"}
	var coq []string
	distinct := map[string]bool{}
	for i, c := range cases {
		res := runCase(c)
		for _, p := range res.Problems {
			rep.Violations = append(rep.Violations, drv.Verdict{Case: i, Problem: p})
			break // one verdict per case
		}
		rep.Stats["mode_"+c.Mode]++
		if c.Shape != "" {
			rep.Stats["shape_"+c.Shape]++
		}
		for k, v := range res.Stats {
			rep.Stats[k] += v
		}
		hs, os := []string{}, []string{}
		for j, st := range c.Steps {
			if j >= len(res.Obs) {
				break
			}
			hs = append(hs, st.coq(res.Obs[j].StepObs))
			os = append(os, res.Obs[j].coq())
			rep.Stats["step_"+st.K]++
			if st.Op != nil {
				rep.Stats["op_"+st.Op.Kind+"_"+st.Op.T]++
			}
			if len(res.Obs[j].Oks) > 1 {
				rep.Stats["cascades"]++
			}
			if res.Obs[j].Fatal {
				rep.Stats["fatal"]++
			}
		}
		for k, b := range map[string]bool{"cases_with_late_instance_events": res.NewNIEv, "cases_with_flush_events": res.FlushEv,
			"cases_with_resolved_events": res.ResEv, "cases_with_delete_entries": res.DelEnt} {
			if b {
				rep.Stats[k]++
			}
		}
		if res.NewNIEv && res.Cascade && res.DelEnt && res.ResEv {
			distinct[c.Mode+"|"+strings.Join(hs, ";")] = true
		}
		final := "[]"
		if res.RIB != nil {
			cont, _ := res.RIB.RIBContents()
			final = drv.CanonCoq(drv.Canon(cont), res.RIB.VerifRefCounts())
		}
		coq = append(coq, fmt.Sprintf("mk_hcase %v\n %s\n %s\n %s", c.NoFwd, drv.CoqList(hs), drv.CoqList(os), final))
		if i < 2 {
			txt := []string{"mode=" + c.Mode + " shape=" + c.Shape}
			for j, st := range c.Steps {
				if j >= len(res.Obs) {
					break
				}
				o := res.Obs[j]
				evs := []string{}
				for _, e := range o.Hevs {
					evs = append(evs, e.String())
				}
				for _, e := range o.Revs {
					evs = append(evs, fmt.Sprintf("resolved %s %s", e.Op, tkey(e.NI, e.T, e.Key)))
				}
				txt = append(txt, fmt.Sprintf("%s => oks=%v fails=%v fatal=%v held=%v callbacks=%v", st.coq(o.StepObs), o.Oks, o.Fails, o.Fatal, o.Pend, evs))
			}
			rep.Samples = append(rep.Samples, txt)
		}
	}
	rep.Nontrivial = len(distinct)
	if err := drv.WriteJSON(*f.Out+"/cases.json", cases); err != nil {
		return err
	}
	if err := drv.WriteCasesV(*f.Out, "From Coq Require Import List NArith Bool.\nFrom GV.Base Require Import Op.\nFrom GV.Rib Require Import Model Run Hooks HooksRun.\nImport ListNotations.\nOpen Scope N_scope.", "hcase", "hmismatches", coq); err != nil {
		return err
	}
	return drv.WriteJSON(*f.Out+"/impl.json", rep)
}
