// vh-c16 is the correspondence / oracle harness of property C16 (change-notification hooks mirror
// the RIB): it runs C01-style RIB histories against the real rib.RIB with the post-change hook and
// the resolved-entry hook registered before / after / between the creation of network instances
// (through rib.RIB.SetPostChangeHook and through server.New options), collects the real callbacks,
// and writes
//
//	<out>/cases.json   the generated cases (replayable inputs)
//	<out>/cases_<k>.v  the same histories with the implementation's answers and callbacks per step,
//	                   as Gallina terms for Rib/HooksRun.v
//	<out>/impl.json    verdicts of the model-free oracle (fold of the callbacks == RIBContents after
//	                   every step; snapshots contain / lack the announced key and never change) and statistics
//
// Sub-command c16conc (conc.go, oracle only): the same oracle over histories in which the hooks are
// registered in one goroutine while network instances are created in another and a stalled reader
// keeps one instance locked.
package main

import "verifharness/drv"

func main() { drv.Main(map[string]drv.Cmd{"c16": runC16, "c16conc": runC16Conc}) }
