package main

import (
	"context"
	"fmt"
	"sort"
	"strings"
	"sync/atomic"

	"verifharness/drv"

	"github.com/openconfig/gribigo/aft"
	"github.com/openconfig/gribigo/rib"
	"github.com/openconfig/gribigo/rib/reconciler"
	"google.golang.org/protobuf/proto"

	spb "github.com/openconfig/gribi/v1/proto/service"
)

// buildRIB creates a rib.RIB (reference checks on, forward references allowed) with the given
// instances and installs the entries; every ADD must be acknowledged at once.
func buildRIB(nis []int, ops []drv.OpSpec) (*rib.RIB, error) {
	r := rib.New(drv.NINames[1])
	for _, n := range nis {
		if n != 1 {
			if err := r.AddNetworkInstance(drv.NINames[n]); err != nil {
				return nil, err
			}
		}
	}
	for _, o := range ops {
		oks, fails, err := r.AddEntry(drv.NINames[o.NI], o.Proto())
		if err != nil || len(fails) != 0 || len(oks) != 1 || oks[0].ID != o.ID {
			return nil, fmt.Errorf("building the RIB: %s: oks=%v fails=%v err=%v", o.Coq(), drv.IDs(oks), drv.IDs(fails), err)
		}
	}
	if p := r.VerifPendingIDs(); len(p) != 0 {
		return nil, fmt.Errorf("building the RIB: held operations %v", p)
	}
	return r, nil
}

// specOf reads an emitted operation back into the JSON / model form; lossless or an error.
func specOf(op *spb.AFTOperation) (drv.OpSpec, error) {
	o := drv.OpSpec{ID: op.GetId(), NI: drv.NICode(op.GetNetworkInstance()), Kind: "OTHER"}
	switch op.GetOp() {
	case spb.AFTOperation_ADD:
		o.Kind = "ADD"
	case spb.AFTOperation_REPLACE:
		o.Kind = "REPLACE"
	case spb.AFTOperation_DELETE:
		o.Kind = "DELETE"
	}
	key := func(m map[uint64]string, s string) uint64 {
		for k, v := range m {
			if v == s {
				return k
			}
		}
		return 999
	}
	topX := func(md []byte, hasMD bool, decap int32) [][2]uint64 {
		var x [][2]uint64
		if hasMD {
			c := uint64(999)
			for k, v := range drv.MetaVals {
				if string(v) == string(md) {
					c = k
				}
			}
			x = append(x, [2]uint64{1, c})
		}
		if decap != 0 {
			x = append(x, [2]uint64{2, uint64(decap)})
		}
		return x
	}
	switch e := op.Entry.(type) {
	case *spb.AFTOperation_Ipv4:
		o.T, o.Key = "v4", key(drv.V4Keys, e.Ipv4.GetPrefix())
		p := e.Ipv4.GetIpv4Entry()
		o.Nil = p == nil
		o.NHG = p.GetNextHopGroup().GetValue()
		if p.GetNextHopGroupNetworkInstance() != nil {
			o.NHGN = drv.NICode(p.GetNextHopGroupNetworkInstance().GetValue())
		}
		o.X = topX(p.GetEntryMetadata().GetValue(), p.GetEntryMetadata() != nil, int32(p.GetDecapsulateHeader()))
	case *spb.AFTOperation_Ipv6:
		o.T, o.Key = "v6", key(drv.V6Keys, e.Ipv6.GetPrefix())
		p := e.Ipv6.GetIpv6Entry()
		o.Nil = p == nil
		o.NHG = p.GetNextHopGroup().GetValue()
		if p.GetNextHopGroupNetworkInstance() != nil {
			o.NHGN = drv.NICode(p.GetNextHopGroupNetworkInstance().GetValue())
		}
		o.X = topX(p.GetEntryMetadata().GetValue(), p.GetEntryMetadata() != nil, int32(p.GetDecapsulateHeader()))
	case *spb.AFTOperation_Mpls:
		o.T, o.Key = "mpls", e.Mpls.GetLabelUint64()
		p := e.Mpls.GetLabelEntry()
		o.Nil = p == nil
		o.NHG = p.GetNextHopGroup().GetValue()
		if p.GetNextHopGroupNetworkInstance() != nil {
			o.NHGN = drv.NICode(p.GetNextHopGroupNetworkInstance().GetValue())
		}
		o.X = topX(p.GetEntryMetadata().GetValue(), p.GetEntryMetadata() != nil, 0)
	case *spb.AFTOperation_NextHopGroup:
		o.T, o.Key = "nhg", e.NextHopGroup.GetId()
		p := e.NextHopGroup.GetNextHopGroup()
		o.Nil = p == nil
		for _, m := range p.GetNextHop() {
			o.NHs = append(o.NHs, [2]uint64{m.GetIndex(), m.GetNextHop().GetWeight().GetValue()})
		}
		sort.Slice(o.NHs, func(i, j int) bool { return o.NHs[i][0] < o.NHs[j][0] })
		o.Bk = p.GetBackupNextHopGroup().GetValue()
		if p.GetColor() != nil {
			o.X = [][2]uint64{{1, p.GetColor().GetValue()}}
		}
	case *spb.AFTOperation_NextHop:
		o.T, o.Key = "nh", e.NextHop.GetIndex()
		p := e.NextHop.GetNextHop()
		o.Nil = p == nil
		if p.GetIpAddress() != nil {
			o.X = append(o.X, [2]uint64{1, key(drv.IPVals, p.GetIpAddress().GetValue())})
		}
		if p.GetMacAddress() != nil {
			o.X = append(o.X, [2]uint64{2, key(drv.MACVals, p.GetMacAddress().GetValue())})
		}
		if p.GetPopTopLabel() != nil {
			o.X = append(o.X, [2]uint64{3, map[bool]uint64{true: 1, false: 2}[p.GetPopTopLabel().GetValue()]})
		}
		if len(p.GetEncapHeader()) > 0 {
			o.X = append(o.X, [2]uint64{4, uint64(len(p.GetEncapHeader()))})
		}
	default:
		o.T = "none"
	}
	// the model form must describe the whole message (members compared as a set)
	back := o.Proto()
	canonMembers := func(m *spb.AFTOperation) {
		if g := m.GetNextHopGroup().GetNextHopGroup(); g != nil {
			sort.Slice(g.NextHop, func(i, j int) bool { return g.NextHop[i].GetIndex() < g.NextHop[j].GetIndex() })
		}
		if h := m.GetNextHop().GetNextHop(); h != nil {
			sort.Slice(h.EncapHeader, func(i, j int) bool { return h.EncapHeader[i].GetIndex() < h.EncapHeader[j].GetIndex() })
		}
	}
	orig := proto.Clone(op).(*spb.AFTOperation)
	canonMembers(orig)
	canonMembers(back)
	if !proto.Equal(orig, back) {
		return o, fmt.Errorf("operation %v carries fields outside the modelled ones (read back as %v)", op, back)
	}
	return o, nil
}

type listRef struct {
	cat, lvl string
	ops      []*spb.AFTOperation
}

// inLists returns the nine lists of a ReconcileOps in the documented sending order.
func inLists(ro *reconciler.ReconcileOps) []listRef {
	g := func(o *reconciler.Ops) *reconciler.Ops {
		if o == nil {
			return &reconciler.Ops{}
		}
		return o
	}
	a, p, d := g(ro.Add), g(ro.Replace), g(ro.Delete)
	return []listRef{{"CAdd", "LNh", a.NH}, {"CAdd", "LNhg", a.NHG}, {"CAdd", "LTop", a.TopLevel},
		{"CReplace", "LNh", p.NH}, {"CReplace", "LNhg", p.NHG}, {"CReplace", "LTop", p.TopLevel},
		{"CDelete", "LTop", d.TopLevel}, {"CDelete", "LNhg", d.NHG}, {"CDelete", "LNh", d.NH}}
}

// contentsText is the canonical text of the contents restricted to the given instances; an
// instance the RIB lacks counts as empty.
func contentsText(r *rib.RIB, nis []int) (string, error) {
	c, err := r.RIBContents()
	if err != nil {
		return "", err
	}
	keep := map[string]*aft.RIB{}
	for _, n := range nis {
		if x, ok := c[drv.NINames[n]]; ok {
			keep[drv.NINames[n]] = x
		}
	}
	return drv.CanonText(drv.Canon(keep)), nil
}

type sentObs struct {
	Oks, Fails []uint64
	Err        bool
}

type caseRun struct {
	nisI, nisT     []int
	opsI, opsT     []drv.OpSpec
	emitted        []string // Coq terms
	next           uint64
	sent           []drv.OpSpec
	res            []sentObs
	final          string
	problems       []string
	perList        map[string]int
	textI, textT   string
	tOnlyNonEmpty  bool
	crossNI, equal bool
	// remote mode: a side read through Get holds entries outside DEFAULT / has an instance without entries
	// (which Get cannot show: the reconciler then sees a RIB without that instance)
	remoteVRF, remoteEmptyNI bool
}

func runCase(c CCase) (*caseRun, error) {
	cr := &caseRun{perList: map[string]int{}}
	sI, sT := niSet(c.NIsI), niSet(c.NIsI, c.NIsT)
	cr.nisI, cr.nisT = sortedNIs(sI), sortedNIs(sT)
	cr.opsI, cr.opsT = sideOps(c, "I", sI), sideOps(c, "T", sT)
	ri, err := buildRIB(cr.nisI, cr.opsI)
	if err != nil {
		return nil, fmt.Errorf("intended: %v", err)
	}
	rt, err := buildRIB(cr.nisT, cr.opsT)
	if err != nil {
		return nil, fmt.Errorf("target: %v", err)
	}
	for _, o := range append(append([]drv.OpSpec{}, cr.opsI...), cr.opsT...) {
		if o.NHGN != 0 && o.NHGN != o.NI {
			cr.crossNI = true
		}
	}
	if cr.textI, err = contentsText(ri, cr.nisT); err != nil {
		return nil, err
	}
	if cr.textT, err = contentsText(rt, cr.nisT); err != nil {
		return nil, err
	}
	cr.equal = cr.textI == cr.textT
	for _, o := range cr.opsT {
		if !sI[o.NI] {
			cr.tOnlyNonEmpty = true
		}
	}
	for _, side := range []struct {
		remote bool
		nis    []int
		ops    []drv.OpSpec
	}{{c.Remote == "I" || c.Remote == "B", cr.nisI, cr.opsI}, {c.Remote == "T" || c.Remote == "B", cr.nisT, cr.opsT}} {
		if !side.remote {
			continue
		}
		used := map[int]bool{}
		for _, o := range side.ops {
			used[o.NI] = true
			if o.NI != 1 {
				cr.remoteVRF = true
			}
		}
		for _, n := range side.nis {
			if !used[n] {
				cr.remoteEmptyNI = true
			}
		}
	}
	bad := func(f string, a ...any) { cr.problems = append(cr.problems, fmt.Sprintf(f, a...)) }

	// ---- the real reconciler
	id := &atomic.Uint64{}
	id.Store(c.Base)
	// each side as a LocalRIB or, in remote mode, behind a RemoteRIB reading the same rib.RIB through a
	// real server (remote.go); everything below is the same in both modes
	remI, remT := c.Remote == "I" || c.Remote == "B", c.Remote == "T" || c.Remote == "B"
	ti, stopI, err := ribTarget(ri, remI, c.Dial)
	if err != nil {
		return nil, fmt.Errorf("serving the intended RIB: %v", err)
	}
	defer stopI()
	tt, stopT, err := ribTarget(rt, remT, c.Dial)
	if err != nil {
		return nil, fmt.Errorf("serving the target RIB: %v", err)
	}
	defer stopT()
	rec := reconciler.New(ti, tt)
	ctx, cancel := context.WithTimeout(context.Background(), rpcTimeout)
	defer cancel()
	ro, err := rec.Reconcile(ctx, id)
	if err != nil || ro == nil {
		bad("Reconcile returned an error: %v", err)
		ro = reconciler.NewReconcileOps()
	}
	cr.next = id.Load()
	lists := inLists(ro)
	var ids []uint64
	total := 0
	for _, l := range lists {
		cr.perList[l.cat+"."+l.lvl] += len(l.ops)
		for _, op := range l.ops {
			total++
			ids = append(ids, op.GetId())
			s, err := specOf(op)
			if err != nil {
				bad("%v", err)
			}
			cr.emitted = append(cr.emitted, fmt.Sprintf("mk_em %s %s %s", l.cat, l.lvl, s.Coq()))
			cr.sent = append(cr.sent, s)
		}
	}
	// ids: distinct, exactly base+1 .. base+k, the counter left at base+k
	sort.Slice(ids, func(i, j int) bool { return ids[i] < ids[j] })
	for i, x := range ids {
		if x != c.Base+uint64(i)+1 {
			bad("operation ids are not base+1..base+k: base=%d sorted ids=%v", c.Base, ids)
			break
		}
	}
	if cr.next != c.Base+uint64(total) {
		bad("id counter is %d after %d operations from base %d", cr.next, total, c.Base)
	}
	// equal RIBs -> no operations
	if cr.equal && total != 0 {
		bad("the RIBs are equal but Reconcile returned %d operations", total)
	}

	// ---- sending the operations to the real target in the documented order
	for _, l := range lists {
		for _, op := range l.ops {
			var oks, fails []*rib.OpResult
			var err error
			switch op.GetOp() {
			case spb.AFTOperation_DELETE:
				oks, fails, err = rt.DeleteEntry(op.GetNetworkInstance(), op)
			default:
				oks, fails, err = rt.AddEntry(op.GetNetworkInstance(), op)
			}
			o := sentObs{Oks: drv.IDs(oks), Fails: drv.IDs(fails), Err: err != nil}
			if err != nil {
				o.Oks, o.Fails = nil, nil
			}
			sort.Slice(o.Fails, func(i, j int) bool { return o.Fails[i] < o.Fails[j] })
			cr.res = append(cr.res, o)
			held := rt.VerifPendingIDs()
			if err != nil || len(o.Fails) != 0 || len(o.Oks) != 1 || o.Oks[0] != op.GetId() || len(held) != 0 {
				s, _ := specOf(op)
				bad("%s.%s operation %s was not programmed: oks=%v fails=%v err=%v held=%v", l.cat, l.lvl, s.Coq(), o.Oks, o.Fails, err, held)
			}
		}
	}
	after, err := contentsText(rt, cr.nisT)
	if err != nil {
		return nil, err
	}
	if after != cr.textI {
		bad("after reconciliation the target differs from the intended RIB:\n-- intended\n%s-- target\n%s", cr.textI, after)
	}
	// reconciling again (the target read anew, through the transport in remote mode) gives nothing
	id2 := &atomic.Uint64{}
	id2.Store(c.Base)
	if again, err := rec.Reconcile(ctx, id2); err != nil || again == nil {
		bad("the second Reconcile returned an error: %v", err)
	} else if n := countOps(again); len(cr.problems) == 0 && (n != 0 || id2.Load() != c.Base) {
		bad("after a successful reconciliation a second Reconcile returned %d operations (id counter %d, base %d)", n, id2.Load(), c.Base)
	}
	cont, err := rt.RIBContents()
	if err != nil {
		return nil, err
	}
	cr.final = drv.CanonCoq(drv.Canon(cont), rt.VerifRefCounts())
	return cr, nil
}

func countOps(ro *reconciler.ReconcileOps) int {
	n := 0
	for _, l := range inLists(ro) {
		n += len(l.ops)
	}
	return n
}

func coqOps(l []drv.OpSpec) string {
	s := []string{}
	for _, o := range l {
		s = append(s, o.Coq())
	}
	return drv.CoqList(s)
}

func coqInts(l []int) string {
	s := []string{}
	for _, n := range l {
		if n != 1 {
			s = append(s, fmt.Sprintf("%d%%N", n))
		}
	}
	return drv.CoqList(s)
}

func (cr *caseRun) coq(c CCase) string {
	res := []string{}
	for _, o := range cr.res {
		res = append(res, fmt.Sprintf("(%s, %s, %v)", drv.CoqNs(o.Oks), drv.CoqNs(o.Fails), o.Err))
	}
	return fmt.Sprintf("mk_ccase %s\n %s\n %s\n %s\n %d\n %s\n %d\n %s\n %s\n %s",
		coqInts(cr.nisI), coqOps(cr.opsI), coqInts(cr.nisT), coqOps(cr.opsT), c.Base,
		drv.CoqList(cr.emitted), cr.next, coqOps(cr.sent), drv.CoqList(res), cr.final)
}

func runC15(args []string) error {
	f := drv.NewFlags("c15")
	if err := f.Parse(args); err != nil {
		return err
	}
	var cases []CCase
	if *f.Replay != "" {
		if err := drv.ReadJSON(*f.Replay, &cases); err != nil {
			return err
		}
	} else {
		g := &gen{r: drv.NewRng(*f.Seed), rm: drv.NewRng(*f.Seed ^ 0x15c15)}
		for i := 0; i < *f.N; i++ {
			cases = append(cases, g.genCase())
		}
	}
	rep := drv.Report{Property: "C15", Seed: *f.Seed, Shard: drv.ShardSize, Stats: map[string]int{}, Cases: len(cases),
		Rule: "pairs of reference-closed RIBs built through rib.RIB (profiles: equal, independent, derived = intended with entries missing / changed / extra, swap = same top-level entry over disjoint group + next-hop chains; up to 3 instances, instances only the target has, cross-instance references); non-trivial = Reconcile filled at least 4 of its 9 lists including a deletion of a group or next-hop; distinct by the canonical text of both RIBs"}
	var coq []string
	distinct := map[string]bool{}
	for i, c := range cases {
		cr, err := runCase(c)
		if err != nil {
			// the two RIBs of a case are reference-closed by construction and installed dependencies first: an
			// operation that is not acknowledged at once while they are built is a failure of the implementation
			rep.Violations = append(rep.Violations, drv.Verdict{Case: i, Problem: "building a reference-closed RIB, dependencies first: " + err.Error()})
			empty := CCase{Base: c.Base, Prof: c.Prof, Remote: c.Remote, Dial: c.Dial}
			cr, err = runCase(empty) // keeps the model comparison aligned with cases.json
			if err != nil {
				return fmt.Errorf("case %d: %v", i, err)
			}
			coq = append(coq, cr.coq(empty))
			continue
		}
		for _, p := range cr.problems {
			rep.Violations = append(rep.Violations, drv.Verdict{Case: i, Problem: p})
		}
		coq = append(coq, cr.coq(c))
		rep.Stats["prof_"+c.Prof]++
		if c.Remote != "" {
			rep.Stats["remote_side_"+c.Remote]++
			rep.Stats["remote_prof_"+c.Prof]++
			rep.Stats["remote_transport_"+map[bool]string{true: "tls_dial", false: "bufconn_stub"}[c.Dial]]++
			if cr.remoteVRF {
				rep.Stats["remote_side_holds_vrf_entries"]++
			}
			if cr.remoteEmptyNI {
				rep.Stats["remote_side_has_empty_instance"]++
			}
		}
		rep.Stats[fmt.Sprintf("instances_target_%d", len(cr.nisT))]++
		if len(cr.nisT) > len(cr.nisI) {
			rep.Stats["target_only_instance"]++
		}
		if cr.tOnlyNonEmpty {
			rep.Stats["target_only_instance_nonempty"]++
		}
		if cr.crossNI {
			rep.Stats["cross_instance_reference"]++
		}
		if cr.equal {
			rep.Stats["equal_ribs"]++
		}
		rep.Stats["entries_intended"] += len(cr.opsI)
		rep.Stats["entries_target"] += len(cr.opsT)
		filled := 0
		for k, v := range cr.perList {
			rep.Stats["ops_"+k] += v
			if v > 0 {
				filled++
			}
		}
		if len(cr.problems) > 0 {
			rep.Stats["cases_with_oracle_violation"]++
		}
		if filled >= 4 && cr.perList["CDelete.LNhg"]+cr.perList["CDelete.LNh"] > 0 {
			distinct[cr.textI+"##"+cr.textT] = true
		}
		if i < 2 {
			rep.Samples = append(rep.Samples, map[string]any{"intended": strings.Split(cr.textI, "\n"), "target": strings.Split(cr.textT, "\n"),
				"ops_per_list": cr.perList, "problems": cr.problems})
		}
	}
	rep.Nontrivial = len(distinct)
	rep.Stats["remote_get_rpcs"] = int(getRPCs.Load())
	if err := drv.WriteJSON(*f.Out+"/cases.json", cases); err != nil {
		return err
	}
	if err := drv.WriteCasesV(*f.Out, "From Coq Require Import List NArith Bool.\nFrom GV.Base Require Import Op.\nFrom GV.Rib Require Import Model Run.\nFrom GV.Tools Require Import Reconciler.\nImport ListNotations.\nOpen Scope N_scope.", "ccase", "cmismatches", coq); err != nil {
		return err
	}
	return drv.WriteJSON(*f.Out+"/impl.json", rep)
}
