package main

// Remote mode: one side (or both) of a case is not handed to the reconciler as a LocalRIB but served
// by a real gRIBI server (server.NewFake + InjectRIB of the very rib.RIB the case built) in this
// process and read by the reconciler through reconciler.RemoteRIB, i.e. client.Get ->
// server.Get -> rib.GetRIB -> rib.FromGetResponses.  Two transports: a bufconn listener with
// reconciler.NewRemoteRIBWithStub, and a loopback TCP listener with the repository's test
// certificate with reconciler.NewRemoteRIB (which dials with TLS itself).

import (
	"context"
	"fmt"
	"net"
	"sync/atomic"
	"time"

	"github.com/openconfig/gribigo/rib"
	"github.com/openconfig/gribigo/rib/reconciler"
	"github.com/openconfig/gribigo/server"
	"github.com/openconfig/gribigo/testcommon"
	"google.golang.org/grpc"
	"google.golang.org/grpc/credentials"
	"google.golang.org/grpc/credentials/insecure"
	"google.golang.org/grpc/test/bufconn"

	"verifharness/drv"

	spb "github.com/openconfig/gribi/v1/proto/service"
)

// rpcTimeout bounds a whole Reconcile call (two Get RPCs at most).
const rpcTimeout = 20 * time.Second

// getRPCs counts the Get RPCs the in-process servers handled (statistics: remote mode really went
// through the transport).
var getRPCs atomic.Int64

func countGets(srv any, ss grpc.ServerStream, info *grpc.StreamServerInfo, h grpc.StreamHandler) error {
	if info.FullMethod == spb.GRIBI_Get_FullMethodName {
		getRPCs.Add(1)
	}
	return h(srv, ss)
}

// serveRIB serves r and returns a RemoteRIB reading it; stop closes the client and the server.
func serveRIB(r *rib.RIB, dial bool) (*reconciler.RemoteRIB, func(), error) {
	fs, err := server.NewFake()
	if err != nil {
		return nil, nil, fmt.Errorf("server.NewFake: %v", err)
	}
	fs.InjectRIB(r)
	opts := []grpc.ServerOption{grpc.StreamInterceptor(countGets)}
	if dial {
		creds, err := credentials.NewServerTLSFromFile(testcommon.TLSCreds())
		if err != nil {
			return nil, nil, fmt.Errorf("test certificate: %v", err)
		}
		opts = append(opts, grpc.Creds(creds))
	}
	gs := grpc.NewServer(opts...)
	spb.RegisterGRIBIServer(gs, fs)
	if dial {
		l, err := net.Listen("tcp", "127.0.0.1:0")
		if err != nil {
			return nil, nil, fmt.Errorf("loopback listener: %v", err)
		}
		go gs.Serve(l)
		ctx, cancel := context.WithTimeout(context.Background(), rpcTimeout)
		defer cancel()
		rr, err := reconciler.NewRemoteRIB(ctx, drv.NINames[1], l.Addr().String())
		if err != nil {
			gs.Stop()
			return nil, nil, err
		}
		return rr, func() { rr.CleanUp(); gs.Stop() }, nil
	}
	l := bufconn.Listen(1 << 20)
	go gs.Serve(l)
	conn, err := grpc.NewClient("passthrough:///c15",
		grpc.WithContextDialer(func(ctx context.Context, _ string) (net.Conn, error) { return l.DialContext(ctx) }),
		grpc.WithTransportCredentials(insecure.NewCredentials()))
	if err != nil {
		gs.Stop()
		return nil, nil, err
	}
	rr, err := reconciler.NewRemoteRIBWithStub(drv.NINames[1], spb.NewGRIBIClient(conn))
	if err != nil {
		conn.Close()
		gs.Stop()
		return nil, nil, err
	}
	return rr, func() { rr.CleanUp(); conn.Close(); gs.Stop() }, nil
}

// ribTarget wraps one side of a case for the reconciler: local, or remote when the case says so.
func ribTarget(r *rib.RIB, remote, dial bool) (reconciler.RIBTarget, func(), error) {
	if !remote {
		return reconciler.NewLocalRIB(r), func() {}, nil
	}
	return serveRIB(r, dial)
}
