// vh-c15 is the correspondence / oracle harness of property C15 (package rib/reconciler): it builds
// generated pairs of reference-closed RIBs through the real rib.RIB, runs the real reconciler on them,
// sends the returned operations to the real target RIB in the documented order, and writes
//
//	<out>/cases.json   the generated cases (replayable inputs)
//	<out>/cases_<k>.v  the same cases with the operations Reconcile returned, the RIB's answer to each
//	                   and the final contents, as Gallina terms for Tools/Reconciler.v
//	<out>/impl.json    verdicts of the model-free oracle (every operation programmed, contents equal
//	                   in every instance of the target, ids base+1..base+k, equal RIBs -> no operations,
//	                   a second Reconcile afterwards -> no operations)
//
// A quarter of the cases (every profile) run in remote mode (remote.go): the target, the intended side or
// both are read by the reconciler through reconciler.RemoteRIB from a real gRIBI server in this process
// that serves the side's rib.RIB; outputs, oracle and correspondence are the same as in local mode.
package main

import "verifharness/drv"

func main() { drv.Main(map[string]drv.Cmd{"c15": runC15}) }
