package main

import (
	"fmt"
	"sort"

	"verifharness/drv"
)

// Ent is one entry of a generated pair of RIBs.
type Ent struct {
	Side string     `json:"side"` // I: intended only, T: target only, B: both
	Op   drv.OpSpec `json:"op"`   // ni, table, key and payload (id and kind are assigned when the RIB is built)
}

// CCase is a pair of RIBs and the base of the operation ids.
type CCase struct {
	Prof string `json:"prof,omitempty"`
	NIsI []int  `json:"nis_i"` // instances of the intended RIB besides DEFAULT (codes 2, 3)
	NIsT []int  `json:"nis_t"` // instances of the target RIB besides DEFAULT; the intended ones are always added
	Base uint64 `json:"base"`
	Ents []Ent  `json:"ents"`
	// Remote: which side the reconciler reads through a RemoteRIB (a real gRIBI server in this process
	// serving the side's rib.RIB) instead of a LocalRIB: "" none, "T" target, "I" intended, "B" both.
	// Dial: over a loopback TLS listener with NewRemoteRIB, otherwise bufconn with NewRemoteRIBWithStub.
	Remote string `json:"remote,omitempty"`
	Dial   bool   `json:"dial,omitempty"`
}

func entKey(o drv.OpSpec) string { return fmt.Sprintf("%d|%s|%d", o.NI, o.T, o.Key) }

func niSet(extra ...[]int) map[int]bool {
	m := map[int]bool{1: true}
	for _, l := range extra {
		for _, n := range l {
			if n == 2 || n == 3 {
				m[n] = true
			}
		}
	}
	return m
}

func sortedNIs(m map[int]bool) []int {
	l := []int{}
	for n := range m {
		l = append(l, n)
	}
	sort.Ints(l)
	return l
}

// sideOps returns the ADDs that build one side, in dependency order (next-hops, groups, top-level
// entries), keeping only well-formed entries whose references exist on that side: the RIB is
// reference-closed and nothing is held.  Applied to every case, generated or replayed (a shrunk case
// may have lost the next-hop of a group: the group and its referrers are then dropped as well).
func sideOps(c CCase, side string, nis map[int]bool) []drv.OpSpec {
	seen := map[string]bool{}
	hasNH, hasNHG := map[[2]uint64]bool{}, map[[2]uint64]bool{}
	var out []drv.OpSpec
	mine := func(e Ent) bool { return (e.Side == side || e.Side == "B") && nis[e.Op.NI] && !e.Op.Nil }
	for _, e := range c.Ents {
		o := e.Op
		if !mine(e) || o.T != "nh" || o.Key == 0 || seen[entKey(o)] {
			continue
		}
		seen[entKey(o)] = true
		hasNH[[2]uint64{uint64(o.NI), o.Key}] = true
		out = append(out, drv.OpSpec{NI: o.NI, T: "nh", Key: o.Key, X: o.X})
	}
	for _, e := range c.Ents {
		o := e.Op
		if !mine(e) || o.T != "nhg" || o.Key == 0 || seen[entKey(o)] || len(o.NHs) == 0 {
			continue
		}
		ok, dup := true, map[uint64]bool{}
		for _, m := range o.NHs {
			if m[0] == 0 || dup[m[0]] || !hasNH[[2]uint64{uint64(o.NI), m[0]}] {
				ok = false
			}
			dup[m[0]] = true
		}
		if !ok {
			continue
		}
		seen[entKey(o)] = true
		hasNHG[[2]uint64{uint64(o.NI), o.Key}] = true
		out = append(out, drv.OpSpec{NI: o.NI, T: "nhg", Key: o.Key, NHs: o.NHs, Bk: o.Bk, X: o.X})
	}
	for _, e := range c.Ents {
		o := e.Op
		if !mine(e) || seen[entKey(o)] || o.NHG == 0 {
			continue
		}
		switch o.T {
		case "v4":
			if _, ok := drv.V4Keys[o.Key]; !ok || o.Key >= 10 {
				continue
			}
		case "v6":
			if _, ok := drv.V6Keys[o.Key]; !ok || o.Key >= 10 {
				continue
			}
		case "mpls":
			if o.Key < 16 || o.Key > 1048575 {
				continue
			}
		default:
			continue
		}
		tn := o.NHGN
		if tn == 0 {
			tn = o.NI
		}
		if tn < 1 || tn > 3 || !nis[tn] || !hasNHG[[2]uint64{uint64(tn), o.NHG}] {
			continue
		}
		seen[entKey(o)] = true
		out = append(out, drv.OpSpec{NI: o.NI, T: o.T, Key: o.Key, NHG: o.NHG, NHGN: o.NHGN, X: o.X})
	}
	for i := range out {
		out[i].ID = uint64(i + 1)
		out[i].Kind = "ADD"
	}
	return out
}

// ---------------------------------------------------------------------------- generator

// r draws the RIBs; rm (a stream of its own, so that the RIBs of a seed do not depend on it) how they
// are handed to the reconciler.
type gen struct{ r, rm *drv.Rng }

// remoteMode: a quarter of the cases of every profile run with the target (half of them), both sides or
// the intended side behind a RemoteRIB; one in five of those over loopback TLS.
func (g *gen) remoteMode(c *CCase) {
	if g.rm == nil || !g.rm.Chance(1, 4) {
		return
	}
	c.Remote = drv.Pick(g.rm, "T", "T", "B", "I")
	c.Dial = g.rm.Chance(1, 5)
}

func (g *gen) nhPayload(o *drv.OpSpec) {
	o.X = nil
	if g.r.Chance(1, 2) {
		o.X = append(o.X, [2]uint64{1, uint64(1 + g.r.Intn(3))})
	}
	if g.r.Chance(1, 4) {
		o.X = append(o.X, [2]uint64{2, uint64(1 + g.r.Intn(2))})
	}
	if g.r.Chance(1, 4) { // pop-top-label true / explicitly false
		o.X = append(o.X, [2]uint64{3, uint64(1 + g.r.Intn(2))})
	}
	if g.r.Chance(1, 4) { // a keyed list of 2-4 encapsulation headers
		o.X = append(o.X, [2]uint64{4, uint64(2 + g.r.Intn(3))})
	}
}

func (g *gen) nhgPayload(o *drv.OpSpec, nhs []uint64) {
	o.NHs, o.Bk, o.X = nil, 0, nil
	n := 1 + g.r.Intn(2)
	perm := g.r.Perm(len(nhs))
	for i := 0; i < n && i < len(nhs); i++ {
		o.NHs = append(o.NHs, [2]uint64{nhs[perm[i]], uint64(1 + g.r.Intn(3))})
	}
	if g.r.Chance(1, 8) {
		o.Bk = uint64(1 + g.r.Intn(3))
	}
	if g.r.Chance(1, 5) {
		o.X = [][2]uint64{{1, uint64(1 + g.r.Intn(3))}}
	}
}

func (g *gen) topPayload(o *drv.OpSpec, groups map[int][]uint64, nis []int) {
	o.NHG, o.NHGN, o.X = 0, 0, nil
	tn := o.NI
	if g.r.Chance(1, 4) { // a group of another (or, explicitly, of its own) instance
		tn = nis[g.r.Intn(len(nis))]
		o.NHGN = tn
	}
	if len(groups[tn]) == 0 {
		tn, o.NHGN = o.NI, 0
	}
	if len(groups[tn]) == 0 {
		return
	}
	o.NHG = groups[tn][g.r.Intn(len(groups[tn]))]
	if g.r.Chance(1, 3) {
		o.X = append(o.X, [2]uint64{1, uint64(1 + g.r.Intn(3))})
	}
	if o.T != "mpls" && g.r.Chance(1, 8) {
		o.X = append(o.X, [2]uint64{2, uint64(1 + g.r.Intn(3))})
	}
}

var topKeys = map[string][]uint64{"v4": {1, 2, 3}, "v6": {1, 2}, "mpls": {16, 100, 1048575}}

// world draws a reference-closed set of entries over the given instances.
func (g *gen) world(nis []int, dens int) []drv.OpSpec {
	var out []drv.OpSpec
	nhs, groups := map[int][]uint64{}, map[int][]uint64{}
	for _, n := range nis {
		for idx := uint64(1); idx <= 4; idx++ {
			if g.r.Chance(dens, 10) {
				o := drv.OpSpec{NI: n, T: "nh", Key: idx}
				g.nhPayload(&o)
				out = append(out, o)
				nhs[n] = append(nhs[n], idx)
			}
		}
		for id := uint64(1); id <= 3; id++ {
			if len(nhs[n]) > 0 && g.r.Chance(dens, 10) {
				o := drv.OpSpec{NI: n, T: "nhg", Key: id}
				g.nhgPayload(&o, nhs[n])
				out = append(out, o)
				groups[n] = append(groups[n], id)
			}
		}
	}
	for _, n := range nis {
		for _, t := range []string{"v4", "v6", "mpls"} {
			for _, k := range topKeys[t] {
				if g.r.Chance(dens, 14) {
					o := drv.OpSpec{NI: n, T: t, Key: k}
					g.topPayload(&o, groups, nis)
					if o.NHG != 0 {
						out = append(out, o)
					}
				}
			}
		}
	}
	return out
}

func (g *gen) subsetNIs() []int {
	l := []int{}
	for _, n := range []int{2, 3} {
		if g.r.Chance(1, 2) {
			l = append(l, n)
		}
	}
	return l
}

// genCase draws one pair of RIBs.
func (g *gen) genCase() CCase {
	c := CCase{Base: drv.Pick(g.r, uint64(0), 0, 1, 41, 1000, 1<<32-1, 1<<53)}
	c.NIsI = g.subsetNIs()
	c.NIsT = append([]int{}, c.NIsI...)
	if g.r.Chance(1, 3) { // an instance only the target has
		for _, n := range []int{3, 2} {
			if !niSet(c.NIsI)[n] {
				c.NIsT = append(c.NIsT, n)
				break
			}
		}
	}
	nisI, nisT := sortedNIs(niSet(c.NIsI)), sortedNIs(niSet(c.NIsI, c.NIsT))
	add := func(side string, ops []drv.OpSpec) {
		for _, o := range ops {
			c.Ents = append(c.Ents, Ent{Side: side, Op: o})
		}
	}
	switch x := g.r.Intn(20); {
	case x < 2:
		c.Prof = "equal"
		add("B", g.world(nisI, 6))
	case x < 8:
		c.Prof = "independent"
		add("I", g.world(nisI, 6))
		add("T", g.world(nisT, 6))
	case x < 12:
		c.Prof = "swap"
		// the same top-level entry points, on each side, at its own group over its own next-hop: the
		// intended chain must be built before the entry is moved, the old one removed afterwards
		n := nisI[g.r.Intn(len(nisI))]
		a, b := uint64(1+g.r.Intn(2)), uint64(3+g.r.Intn(2))
		g1, g2 := uint64(1), uint64(2)
		if g.r.Chance(1, 2) {
			g2 = g1 // the group keeps its id and changes its member
		}
		t := drv.Pick(g.r, "v4", "v6", "mpls")
		k := topKeys[t][g.r.Intn(len(topKeys[t]))]
		tn, nhgn := n, 0
		if g.r.Chance(1, 3) && len(nisI) > 1 { // the referrer lives in another instance
			for _, m := range nisI {
				if m != n {
					tn, nhgn = m, n
				}
			}
		}
		add("I", []drv.OpSpec{{NI: n, T: "nh", Key: a}, {NI: n, T: "nhg", Key: g1, NHs: [][2]uint64{{a, 1}}},
			{NI: tn, T: t, Key: k, NHG: g1, NHGN: nhgn}})
		add("T", []drv.OpSpec{{NI: n, T: "nh", Key: b}, {NI: n, T: "nhg", Key: g2, NHs: [][2]uint64{{b, 1}}},
			{NI: tn, T: t, Key: k, NHG: g2, NHGN: nhgn}})
		if g.r.Chance(1, 2) {
			add("B", g.world(nisI, 3))
		}
		if g.r.Chance(1, 2) {
			add("T", g.world(nisT, 3))
		}
	default:
		c.Prof = "derived"
		// the target is the intended RIB with some entries missing, some changed and some extra
		w := g.world(nisI, 7)
		nhs, groups := map[int][]uint64{}, map[int][]uint64{}
		for _, o := range w {
			switch o.T {
			case "nh":
				nhs[o.NI] = append(nhs[o.NI], o.Key)
			case "nhg":
				groups[o.NI] = append(groups[o.NI], o.Key)
			}
		}
		for _, o := range w {
			switch y := g.r.Intn(10); {
			case y < 6:
				add("B", []drv.OpSpec{o})
			case y < 8:
				add("I", []drv.OpSpec{o})
			default:
				add("I", []drv.OpSpec{o})
				p := o
				switch o.T {
				case "nh":
					g.nhPayload(&p)
				case "nhg":
					g.nhgPayload(&p, nhs[o.NI])
				default:
					g.topPayload(&p, groups, nisI)
				}
				if p.T == "nh" || p.T == "nhg" || p.NHG != 0 {
					add("T", []drv.OpSpec{p})
				}
			}
		}
		add("T", g.world(nisT, 3))
	}
	g.remoteMode(&c)
	return c
}
