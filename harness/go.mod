module verifharness

go 1.25.0

toolchain go1.26.1

require (
	github.com/golang/glog v1.2.5
	github.com/openconfig/gribi v1.9.1
	github.com/openconfig/gribigo v0.0.0
	github.com/openconfig/ygot v0.34.0
	google.golang.org/genproto/googleapis/rpc v0.0.0-20260319201613-d00831a3d3e7
	google.golang.org/grpc v1.79.3
	google.golang.org/protobuf v1.36.11
)

require (
	github.com/google/go-cmp v0.7.0 // indirect
	github.com/google/uuid v1.6.0 // indirect
	github.com/kylelemons/godebug v1.1.0 // indirect
	github.com/openconfig/gnmi v0.14.1 // indirect
	github.com/openconfig/goyang v1.6.3 // indirect
	go.uber.org/atomic v1.11.0 // indirect
	golang.org/x/exp v0.0.0-20250218142911-aa4b98e5adaa // indirect
	golang.org/x/net v0.55.0 // indirect
	golang.org/x/sys v0.45.0 // indirect
	golang.org/x/text v0.37.0 // indirect
	lukechampine.com/uint128 v1.3.0 // indirect
)

replace github.com/openconfig/gribigo => /repo
