#!/bin/sh
# usage: dbgscase.sh <dir> <shard> <index>: where does the server model differ from the recorded observables
d=$1; k=$2; i=$3
cd $d
grep -v "^Definition M\|^Print M" cases_$k.v > dbgs_$k.v
cat >> dbgs_$k.v <<EOT
Definition the_case := nth $i cases (mk_scase false [] [] [] (mk_sfinal [] [] None None)).
Definition zip3 := combine (sc_hist the_case) (combine (fst (smodel the_case)) (sc_outs the_case)).
Eval vm_compute in (filter (fun x => negb (sout_eqb (fst (snd x)) (snd (snd x)))) zip3).
Eval vm_compute in (sfinal_eqb (snd (smodel the_case)) (sc_final the_case)).
EOT
coqc -Q /verif/coq/theories GV dbgs_$k.v
