module veriftools

go 1.23
