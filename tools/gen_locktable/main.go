// gen_locktable derives, from the current source of packages rib and server, a table of
//   - every access to a field of a struct type declared in those packages (field, read/write/pointer
//     comparison, locks held locally at that point),
//   - every call to a function or method declared in those packages (callee, locks held locally),
//   - every lock acquisition (lock, mode, locks held locally),
//   - for every function that takes a lock (itself or in a function literal inside it): every `return` and the
//     reachable end of the body, with the locks taken in that body that may still be held there and are not
//     covered by a deferred unlock (a branch-merging may-analysis separate from the linear tracker, see leak.go),
//
// per function, as Gallina data (Generated/LockTable.v).  It is a serialiser with a linear
// held-lock tracker; what the table must satisfy is stated and checked in Coq (Conc/LockOrder.v).
// Types are resolved with go/types using a stub importer for everything outside the two packages,
// so calls to generated getters of other packages are not confused with local methods.
package main

import (
	"flag"
	"fmt"
	"go/ast"
	"go/parser"
	"go/token"
	"go/types"
	"os"
	"path/filepath"
	"sort"
	"strings"
)

type stub struct{ known map[string]*types.Package }

func (s stub) Import(path string) (*types.Package, error) {
	if p, ok := s.known[path]; ok {
		return p, nil
	}
	name := path[strings.LastIndex(path, "/")+1:]
	p := types.NewPackage(path, name)
	p.MarkComplete()
	return p, nil
}

type held struct {
	lock string
	mode string // W | R
}

type fnInfo struct {
	name     string
	accesses []string
	calls    []string
	acqs     []string
	rets     []string
}

type analyser struct {
	fset  *token.FileSet
	info  *types.Info
	pkg   string
	local map[string]bool // package paths considered local
	fns   []*fnInfo
	nlit  int
}

func q(s string) string { return `"` + s + `"` }

func heldCoq(h []held) string {
	s := []string{}
	for _, x := range h {
		s = append(s, fmt.Sprintf("(%s, %s)", q(x.lock), x.mode))
	}
	return "[" + strings.Join(s, "; ") + "]"
}

func named(t types.Type) string {
	for {
		switch v := t.(type) {
		case *types.Pointer:
			t = v.Elem()
			continue
		case *types.Named:
			return v.Obj().Name()
		}
		return ""
	}
}

// fieldName returns "Type.field" for a selection of a field of a local struct type.
func (a *analyser) fieldName(sel *ast.SelectorExpr) string {
	s, ok := a.info.Selections[sel]
	if !ok || s.Kind() != types.FieldVal {
		return ""
	}
	v, ok := s.Obj().(*types.Var)
	if !ok || v.Pkg() == nil || !a.local[v.Pkg().Path()] {
		return ""
	}
	// the struct that declares the field: walk the selection's receiver through embedded fields
	recv := named(s.Recv())
	if len(s.Index()) > 1 {
		// promoted field: name the declaring type by searching
		recv = ""
	}
	if recv == "" {
		return "?." + v.Name()
	}
	return recv + "." + v.Name()
}

// calleeName returns the qualified name of a called local function or method.
func (a *analyser) calleeName(call *ast.CallExpr) string {
	switch f := call.Fun.(type) {
	case *ast.Ident:
		if o, ok := a.info.Uses[f].(*types.Func); ok && o.Pkg() != nil && a.local[o.Pkg().Path()] {
			return o.Pkg().Name() + "." + o.Name()
		}
	case *ast.SelectorExpr:
		if s, ok := a.info.Selections[f]; ok && s.Kind() == types.MethodVal {
			if o, ok := s.Obj().(*types.Func); ok && o.Pkg() != nil && a.local[o.Pkg().Path()] {
				return named(s.Recv()) + "." + o.Name()
			}
		}
		// package-qualified function of the other local package: rib.New(...)
		if id, ok := f.X.(*ast.Ident); ok {
			if pn, ok := a.info.Uses[id].(*types.PkgName); ok && a.local[pn.Imported().Path()] {
				return pn.Imported().Name() + "." + f.Sel.Name
			}
		}
	}
	return ""
}

type walker struct {
	a    *analyser
	fn   *fnInfo
	held []held
}

func (w *walker) lockOp(call *ast.CallExpr) bool {
	sel, ok := call.Fun.(*ast.SelectorExpr)
	if !ok {
		return false
	}
	op := sel.Sel.Name
	if op != "Lock" && op != "RLock" && op != "Unlock" && op != "RUnlock" {
		return false
	}
	inner, ok := sel.X.(*ast.SelectorExpr)
	if !ok {
		return false
	}
	name := w.a.fieldName(inner)
	if name == "" {
		return false
	}
	// the expression that selects the mutex is itself a read of the enclosing pointer chain
	w.expr(inner.X, "R")
	switch op {
	case "Lock":
		w.fn.acqs = append(w.fn.acqs, fmt.Sprintf("(%s, W, %s)", q(name), heldCoq(w.held)))
		w.held = append(w.held, held{name, "W"})
	case "RLock":
		w.fn.acqs = append(w.fn.acqs, fmt.Sprintf("(%s, R, %s)", q(name), heldCoq(w.held)))
		w.held = append(w.held, held{name, "R"})
	default:
		for i := len(w.held) - 1; i >= 0; i-- {
			if w.held[i].lock == name {
				w.held = append(w.held[:i:i], w.held[i+1:]...)
				break
			}
		}
	}
	return true
}

// expr records the accesses and calls inside e; mode is the access kind of the outermost local
// field selections on the path to the mutated object ("W") or "R".
func (w *walker) expr(e ast.Expr, mode string) {
	switch v := e.(type) {
	case nil:
	case *ast.ParenExpr:
		w.expr(v.X, mode)
	case *ast.SelectorExpr:
		if name := w.a.fieldName(v); name != "" {
			w.fn.accesses = append(w.fn.accesses, fmt.Sprintf("(%s, %s, %s)", q(name), mode, heldCoq(w.held)))
		}
		w.expr(v.X, mode)
	case *ast.IndexExpr:
		w.expr(v.X, mode)
		w.expr(v.Index, "R")
	case *ast.StarExpr:
		w.expr(v.X, mode)
	case *ast.UnaryExpr:
		w.expr(v.X, mode)
	case *ast.BinaryExpr:
		// a field compared with nil is a pointer comparison, not an access to what it points to
		if isNil(v.Y) {
			w.expr(v.X, "P")
		} else if isNil(v.X) {
			w.expr(v.Y, "P")
		} else {
			w.expr(v.X, "R")
			w.expr(v.Y, "R")
		}
	case *ast.CallExpr:
		if w.lockOp(v) {
			return
		}
		if id, ok := v.Fun.(*ast.Ident); ok && id.Name == "delete" && len(v.Args) == 2 {
			w.expr(v.Args[0], "W")
			w.expr(v.Args[1], "R")
			return
		}
		if sel, ok := v.Fun.(*ast.SelectorExpr); ok && sel.Sel.Name == "MergeStructInto" && len(v.Args) > 0 {
			w.expr(v.Args[0], "W")
			for _, x := range v.Args[1:] {
				w.expr(x, "R")
			}
			return
		}
		if name := w.a.calleeName(v); name != "" {
			w.fn.calls = append(w.fn.calls, fmt.Sprintf("(%s, %s)", q(name), heldCoq(w.held)))
		}
		if sel, ok := v.Fun.(*ast.SelectorExpr); ok {
			w.expr(sel.X, "R")
		} else if fl, ok := v.Fun.(*ast.FuncLit); ok {
			w.block(fl.Body)
		}
		for _, x := range v.Args {
			w.expr(x, "R")
		}
	case *ast.FuncLit:
		// a closure defined here and called later in this function: analysed in place
		w.block(v.Body)
	case *ast.CompositeLit:
		for _, el := range v.Elts {
			if kv, ok := el.(*ast.KeyValueExpr); ok {
				w.expr(kv.Value, "R")
			} else {
				w.expr(el, "R")
			}
		}
	case *ast.KeyValueExpr:
		w.expr(v.Value, "R")
	case *ast.TypeAssertExpr:
		w.expr(v.X, mode)
	case *ast.SliceExpr:
		w.expr(v.X, mode)
	}
}

func isNil(e ast.Expr) bool {
	id, ok := e.(*ast.Ident)
	return ok && id.Name == "nil"
}

func (w *walker) block(b *ast.BlockStmt) {
	if b == nil {
		return
	}
	for _, s := range b.List {
		w.stmt(s)
	}
}

func (w *walker) stmt(s ast.Stmt) {
	switch v := s.(type) {
	case *ast.ExprStmt:
		w.expr(v.X, "R")
	case *ast.AssignStmt:
		for _, r := range v.Rhs {
			w.expr(r, "R")
		}
		for _, l := range v.Lhs {
			if _, ok := l.(*ast.Ident); ok {
				continue
			}
			w.expr(l, "W")
		}
	case *ast.IncDecStmt:
		w.expr(v.X, "W")
	case *ast.DeferStmt:
		// a deferred unlock keeps the lock to the end of the function; other deferred calls run at
		// function end, after the body: analysed as a function of their own
		if sel, ok := v.Call.Fun.(*ast.SelectorExpr); ok && (sel.Sel.Name == "Unlock" || sel.Sel.Name == "RUnlock") {
			return
		}
		w.a.spawn(w.fn.name+"$defer", v.Call)
	case *ast.GoStmt:
		w.a.spawn(w.fn.name+"$go", v.Call)
	case *ast.ReturnStmt:
		for _, r := range v.Results {
			w.expr(r, "R")
		}
	case *ast.IfStmt:
		if v.Init != nil {
			w.stmt(v.Init)
		}
		w.expr(v.Cond, "R")
		w.block(v.Body)
		if v.Else != nil {
			w.stmt(v.Else)
		}
	case *ast.BlockStmt:
		w.block(v)
	case *ast.ForStmt:
		if v.Init != nil {
			w.stmt(v.Init)
		}
		w.expr(v.Cond, "R")
		w.block(v.Body)
		if v.Post != nil {
			w.stmt(v.Post)
		}
	case *ast.RangeStmt:
		w.expr(v.X, "R")
		w.block(v.Body)
	case *ast.SwitchStmt:
		if v.Init != nil {
			w.stmt(v.Init)
		}
		w.expr(v.Tag, "R")
		w.block(v.Body)
	case *ast.TypeSwitchStmt:
		if v.Init != nil {
			w.stmt(v.Init)
		}
		w.stmt(v.Assign)
		w.block(v.Body)
	case *ast.CaseClause:
		for _, e := range v.List {
			w.expr(e, "R")
		}
		for _, b := range v.Body {
			w.stmt(b)
		}
	case *ast.SelectStmt:
		w.block(v.Body)
	case *ast.CommClause:
		if v.Comm != nil {
			w.stmt(v.Comm)
		}
		for _, b := range v.Body {
			w.stmt(b)
		}
	case *ast.SendStmt:
		w.expr(v.Chan, "R")
		w.expr(v.Value, "R")
	case *ast.DeclStmt:
		if gd, ok := v.Decl.(*ast.GenDecl); ok {
			for _, sp := range gd.Specs {
				if vs, ok := sp.(*ast.ValueSpec); ok {
					for _, x := range vs.Values {
						w.expr(x, "R")
					}
				}
			}
		}
	case *ast.LabeledStmt:
		w.stmt(v.Stmt)
	}
}

// spawn analyses a call that runs with no locks inherited (goroutine, deferred call).
func (a *analyser) spawn(name string, call *ast.CallExpr) {
	a.nlit++
	fn := &fnInfo{name: fmt.Sprintf("%s%d", name, a.nlit)}
	a.fns = append(a.fns, fn)
	w := &walker{a: a, fn: fn}
	if fl, ok := call.Fun.(*ast.FuncLit); ok {
		w.block(fl.Body)
		for _, x := range call.Args {
			w.expr(x, "R")
		}
		return
	}
	w.expr(call, "R")
}

func (a *analyser) file(f *ast.File) {
	for _, d := range f.Decls {
		fd, ok := d.(*ast.FuncDecl)
		if !ok || fd.Body == nil {
			continue
		}
		name := a.pkg + "." + fd.Name.Name
		if fd.Recv != nil && len(fd.Recv.List) == 1 {
			if t := a.info.TypeOf(fd.Recv.List[0].Type); t != nil {
				name = named(t) + "." + fd.Name.Name
			}
		}
		fn := &fnInfo{name: name}
		a.fns = append(a.fns, fn)
		(&walker{a: a, fn: fn}).block(fd.Body)
		fn.rets = a.leaks(fd)
	}
}

func check(fset *token.FileSet, dir, path string, imp stub) (*types.Package, *types.Info, []*ast.File) {
	pkgs, err := parser.ParseDir(fset, dir, func(fi os.FileInfo) bool {
		return !strings.HasSuffix(fi.Name(), "_test.go") && fi.Name() != "verif_hooks.go"
	}, 0)
	if err != nil {
		fmt.Fprintln(os.Stderr, err)
		os.Exit(2)
	}
	var files []*ast.File
	names := []string{}
	for _, p := range pkgs {
		for n := range p.Files {
			names = append(names, n)
		}
	}
	sort.Strings(names)
	for _, p := range pkgs {
		for _, n := range names {
			if f, ok := p.Files[n]; ok {
				files = append(files, f)
			}
		}
	}
	info := &types.Info{Selections: map[*ast.SelectorExpr]*types.Selection{}, Uses: map[*ast.Ident]types.Object{},
		Types: map[ast.Expr]types.TypeAndValue{}, Defs: map[*ast.Ident]types.Object{}}
	conf := types.Config{Importer: imp, Error: func(error) {}}
	pkg, _ := conf.Check(path, fset, files, info)
	return pkg, info, files
}

func main() {
	repo := flag.String("repo", "/repo", "repository root")
	flag.Parse()
	fset := token.NewFileSet()
	imp := stub{known: map[string]*types.Package{}}
	ribPath, srvPath := "github.com/openconfig/gribigo/rib", "github.com/openconfig/gribigo/server"
	local := map[string]bool{ribPath: true, srvPath: true}
	ribPkg, ribInfo, ribFiles := check(fset, filepath.Join(*repo, "rib"), ribPath, imp)
	imp.known[ribPath] = ribPkg
	_, srvInfo, srvFiles := check(fset, filepath.Join(*repo, "server"), srvPath, imp)
	var all []*fnInfo
	for _, x := range []struct {
		pkg   string
		info  *types.Info
		files []*ast.File
	}{{"rib", ribInfo, ribFiles}, {"server", srvInfo, srvFiles}} {
		a := &analyser{fset: fset, info: x.info, pkg: x.pkg, local: local}
		for _, f := range x.files {
			a.file(f)
		}
		all = append(all, a.fns...)
	}
	var b strings.Builder
	b.WriteString("(* GENERATED by /verif/tools/gen_locktable from " + *repo + "/rib and " + *repo + "/server on every check run. Do not edit. *)\n")
	b.WriteString("From Coq Require Import List String.\nFrom GV.Conc Require Import LockDefs.\nImport ListNotations.\nOpen Scope string_scope.\n\n")
	b.WriteString("Definition lock_table : list fn_entry := [\n")
	rows := []string{}
	for _, f := range all {
		if len(f.accesses)+len(f.calls)+len(f.acqs)+len(f.rets) == 0 {
			continue
		}
		rows = append(rows, fmt.Sprintf(" mk_fn %s\n  [%s]\n  [%s]\n  [%s]\n  [%s]", q(f.name), strings.Join(f.accesses, "; "), strings.Join(f.calls, "; "), strings.Join(f.acqs, "; "), strings.Join(f.rets, "; ")))
	}
	b.WriteString(strings.Join(rows, ";\n"))
	b.WriteString("\n].\n")
	fmt.Print(b.String())
}
