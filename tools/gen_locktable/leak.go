package main

// Locks still held at the exits of a function body.
//
// For a function declaration, and separately for every function literal inside it (goroutine body, deferred
// call, closure), the body is interpreted over the abstract state
//   reach  - can control get here,
//   held   - locks taken in this body that MAY still be held (union over the paths that get here),
//   def    - locks for which a deferred unlock has certainly been registered (intersection over the paths),
// with branch merging: each branch of an if / switch / select starts from the state before it, a branch that
// ends in return (or panic, log.Fatal, os.Exit) does not flow into what follows, loops are iterated to a fixed
// point with break / continue states.  Every `return` and the end of the body, when reachable, is a site;
// what is printed for it is held there (locks covered by a deferred unlock are never in held).

import (
	"bytes"
	"fmt"
	"go/ast"
	"go/printer"
	"go/token"
	"sort"
	"strings"
)

type lst struct {
	reach bool
	held  map[string]string // lock -> mode
	def   map[string]bool
}

func newState() lst  { return lst{reach: true, held: map[string]string{}, def: map[string]bool{}} }
func deadState() lst { return lst{reach: false, held: map[string]string{}, def: map[string]bool{}} }

func (s lst) clone() lst {
	c := lst{reach: s.reach, held: map[string]string{}, def: map[string]bool{}}
	for k, v := range s.held {
		c.held[k] = v
	}
	for k := range s.def {
		c.def[k] = true
	}
	return c
}

func merge(a, b lst) lst {
	if !a.reach {
		return b.clone()
	}
	if !b.reach {
		return a.clone()
	}
	c := a.clone()
	for k, v := range b.held {
		if old, ok := c.held[k]; !ok || old == "R" {
			c.held[k] = v
		}
	}
	for k := range c.def {
		if !b.def[k] {
			delete(c.def, k)
		}
	}
	return c
}

func same(a, b lst) bool {
	if a.reach != b.reach || len(a.held) != len(b.held) || len(a.def) != len(b.def) {
		return false
	}
	for k, v := range a.held {
		if b.held[k] != v {
			return false
		}
	}
	for k := range a.def {
		if !b.def[k] {
			return false
		}
	}
	return true
}

type frame struct {
	label  string
	loop   bool
	breaks []lst
	conts  []lst
}

type leaker struct {
	a      *analyser
	prefix string // "" for the declaration, "lit<k>." for a literal
	sites  []string
	nret   int
	dry    int // > 0: a non-final loop iteration, nothing is recorded
	stack  []*frame
	lits   []*ast.FuncLit // literals met (analysed afterwards, each on its own)
	seen   map[*ast.FuncLit]bool
	guard  string
	label  string // pending label for the next breakable statement
	acq    bool   // some lock is taken in this body
}

func (a *analyser) short(n ast.Node) string {
	var buf bytes.Buffer
	printer.Fprint(&buf, a.fset, n)
	s := strings.Join(strings.Fields(buf.String()), " ")
	if len(s) > 50 {
		s = s[:50]
	}
	return strings.ReplaceAll(s, `"`, `'`)
}

// leaks returns the printed sites of a declaration and of the literals inside it; nil if no lock is taken.
func (a *analyser) leaks(fd *ast.FuncDecl) []string {
	var out []string
	any := false
	queue := []*ast.BlockStmt{fd.Body}
	prefixes := []string{""}
	seen := map[*ast.FuncLit]bool{}
	nlit := 0
	for len(queue) > 0 {
		body, prefix := queue[0], prefixes[0]
		queue, prefixes = queue[1:], prefixes[1:]
		l := &leaker{a: a, prefix: prefix, seen: seen}
		st := l.block(body.List, newState())
		if st.reach {
			l.record("end", st)
		}
		any = any || l.acq
		out = append(out, l.sites...)
		for _, fl := range l.lits {
			nlit++
			queue = append(queue, fl.Body)
			prefixes = append(prefixes, fmt.Sprintf("lit%d.", nlit))
		}
	}
	if !any {
		return nil
	}
	if len(out) == 0 { // locks are taken but the body has no exit (a server loop)
		out = []string{fmt.Sprintf("(%s, [])", q("no exit"))}
	}
	return out
}

func (l *leaker) record(what string, s lst) {
	if l.dry > 0 {
		return
	}
	names := []string{}
	for k := range s.held {
		names = append(names, k)
	}
	sort.Strings(names)
	hs := []string{}
	for _, k := range names {
		hs = append(hs, fmt.Sprintf("(%s, %s)", q(k), s.held[k]))
	}
	l.sites = append(l.sites, fmt.Sprintf("(%s, [%s])", q(l.prefix+what), strings.Join(hs, "; ")))
}

// lockCall classifies X.f.Lock() etc. on a mutex field of a local struct: returns lock name and operation.
func (l *leaker) lockCall(call *ast.CallExpr) (string, string) {
	sel, ok := call.Fun.(*ast.SelectorExpr)
	if !ok {
		return "", ""
	}
	op := sel.Sel.Name
	if op != "Lock" && op != "RLock" && op != "Unlock" && op != "RUnlock" {
		return "", ""
	}
	inner, ok := sel.X.(*ast.SelectorExpr)
	if !ok {
		return "", ""
	}
	return l.a.fieldName(inner), op
}

func terminates(call *ast.CallExpr) bool {
	switch f := call.Fun.(type) {
	case *ast.Ident:
		return f.Name == "panic"
	case *ast.SelectorExpr:
		if x, ok := f.X.(*ast.Ident); ok {
			n := f.Sel.Name
			if x.Name == "os" && n == "Exit" {
				return true
			}
			if (x.Name == "log" || x.Name == "glog") && (strings.HasPrefix(n, "Fatal") || strings.HasPrefix(n, "Exit")) {
				return true
			}
		}
	}
	return false
}

// scan notes the function literals inside an expression / statement that is not interpreted structurally.
func (l *leaker) scan(n ast.Node) {
	if n == nil {
		return
	}
	ast.Inspect(n, func(x ast.Node) bool {
		if fl, ok := x.(*ast.FuncLit); ok {
			if !l.seen[fl] {
				l.seen[fl] = true
				l.lits = append(l.lits, fl)
			}
			return false
		}
		return true
	})
}

func (l *leaker) block(list []ast.Stmt, s lst) lst {
	for _, st := range list {
		s = l.stmt(st, s)
	}
	return s
}

func (l *leaker) push(loop bool) *frame {
	f := &frame{label: l.label, loop: loop}
	l.label = ""
	l.stack = append(l.stack, f)
	return f
}
func (l *leaker) pop() { l.stack = l.stack[:len(l.stack)-1] }

func (l *leaker) target(label string, needLoop bool) *frame {
	for i := len(l.stack) - 1; i >= 0; i-- {
		f := l.stack[i]
		if label != "" {
			if f.label == label {
				return f
			}
			continue
		}
		if !needLoop || f.loop {
			return f
		}
	}
	return nil
}

func mergeAll(s lst, more []lst) lst {
	for _, m := range more {
		s = merge(s, m)
	}
	return s
}

// loop interprets a loop body to a fixed point; zero: the body may not run at all; exits: only by break.
func (l *leaker) loop(body *ast.BlockStmt, post ast.Stmt, entry lst, zero bool, onlyBreak bool) lst {
	label := l.label
	head := entry.clone()
	var f *frame
	var out lst
	for i := 0; ; i++ {
		// dry run to find the state at the loop head
		l.dry++
		l.label = label
		f = l.push(true)
		out = l.block(body.List, head.clone())
		out = mergeAll(out, f.conts)
		if post != nil {
			out = l.stmt(post, out)
		}
		l.pop()
		l.dry--
		next := merge(head, out)
		if same(next, head) || i > 6 {
			break
		}
		head = next
	}
	l.label = label
	f = l.push(true)
	out = l.block(body.List, head.clone())
	out = mergeAll(out, f.conts)
	if post != nil {
		out = l.stmt(post, out)
	}
	l.pop()
	after := deadState()
	if !onlyBreak {
		after = merge(out, head)
		if !zero {
			after = out
		}
	}
	return mergeAll(after, f.breaks)
}

func hasBreakTo(body *ast.BlockStmt) bool {
	// a `for { }` without condition ends only by break (approximation: any break or labelled jump inside)
	found := false
	ast.Inspect(body, func(n ast.Node) bool {
		switch v := n.(type) {
		case *ast.FuncLit:
			return false
		case *ast.BranchStmt:
			if v.Tok == token.BREAK || v.Tok == token.GOTO {
				found = true
			}
		}
		return true
	})
	return found
}

func (l *leaker) clauses(list []ast.Stmt, s lst, hasImplicitSkip bool) lst {
	f := l.push(false)
	after := deadState()
	sawDefault := false
	for _, x := range list {
		var body []ast.Stmt
		g := l.guard
		switch cc := x.(type) {
		case *ast.CaseClause:
			body = cc.Body
			if cc.List == nil {
				sawDefault = true
				l.guard = "case default"
			} else {
				for _, e := range cc.List {
					l.scan(e)
				}
				l.guard = "case " + l.a.short(cc.List[0])
			}
		case *ast.CommClause:
			body = cc.Body
			if cc.Comm == nil {
				sawDefault = true
				l.guard = "comm default"
			} else {
				l.scan(cc.Comm)
				l.guard = "comm " + l.a.short(cc.Comm)
			}
		}
		out := l.block(body, s.clone())
		l.guard = g
		// fallthrough is treated as the end of the clause
		after = merge(after, out)
	}
	l.pop()
	if hasImplicitSkip && !sawDefault {
		after = merge(after, s)
	}
	return mergeAll(after, f.breaks)
}

func (l *leaker) stmt(st ast.Stmt, s lst) lst {
	if !s.reach {
		// unreachable code is still scanned for literals, nothing else
		l.scan(st)
		return s
	}
	switch v := st.(type) {
	case *ast.ExprStmt:
		if call, ok := v.X.(*ast.CallExpr); ok {
			if name, op := l.lockCall(call); name != "" {
				s = s.clone()
				switch op {
				case "Lock", "RLock":
					l.acq = true
					if !s.def[name] {
						mode := "W"
						if op == "RLock" {
							mode = "R"
						}
						if old, ok := s.held[name]; !ok || old == "R" {
							s.held[name] = mode
						}
					}
				default:
					delete(s.held, name)
				}
				return s
			}
			l.scan(v.X)
			if terminates(call) {
				return deadState()
			}
			return s
		}
		l.scan(v.X)
	case *ast.DeferStmt:
		if name, op := l.lockCall(v.Call); name != "" && (op == "Unlock" || op == "RUnlock") {
			s = s.clone()
			delete(s.held, name)
			s.def[name] = true
			return s
		}
		// a deferred literal that unlocks: the locks it releases are covered
		if fl, ok := v.Call.Fun.(*ast.FuncLit); ok {
			s = s.clone()
			ast.Inspect(fl.Body, func(n ast.Node) bool {
				if c, ok := n.(*ast.CallExpr); ok {
					if name, op := l.lockCall(c); name != "" && (op == "Unlock" || op == "RUnlock") {
						delete(s.held, name)
						s.def[name] = true
					}
				}
				return true
			})
		}
		l.scan(v.Call)
	case *ast.GoStmt:
		l.scan(v.Call)
	case *ast.ReturnStmt:
		for _, r := range v.Results {
			l.scan(r)
		}
		l.nret++
		what := fmt.Sprintf("return%d", l.nret)
		if l.guard != "" {
			what += " " + l.guard
		}
		if l.dry == 0 {
			l.record(what, s)
		} else {
			l.nret-- // numbered in the recording pass only
		}
		return deadState()
	case *ast.BranchStmt:
		label := ""
		if v.Label != nil {
			label = v.Label.Name
		}
		switch v.Tok {
		case token.BREAK:
			if f := l.target(label, false); f != nil {
				f.breaks = append(f.breaks, s.clone())
			}
			return deadState()
		case token.CONTINUE:
			if f := l.target(label, true); f != nil {
				f.conts = append(f.conts, s.clone())
			}
			return deadState()
		case token.GOTO:
			return deadState() // not interpreted (none in rib / server)
		}
	case *ast.BlockStmt:
		return l.block(v.List, s)
	case *ast.LabeledStmt:
		l.label = v.Label.Name
		out := l.stmt(v.Stmt, s)
		l.label = ""
		return out
	case *ast.IfStmt:
		if v.Init != nil {
			s = l.stmt(v.Init, s)
		}
		l.scan(v.Cond)
		g := l.guard
		l.guard = "if " + l.a.short(v.Cond)
		thenOut := l.block(v.Body.List, s.clone())
		l.guard = g
		elseOut := s
		if v.Else != nil {
			l.guard = "else of " + l.a.short(v.Cond)
			elseOut = l.stmt(v.Else, s.clone())
			l.guard = g
		}
		return merge(thenOut, elseOut)
	case *ast.ForStmt:
		if v.Init != nil {
			s = l.stmt(v.Init, s)
		}
		l.scan(v.Cond)
		if v.Cond == nil {
			return l.loop(v.Body, v.Post, s, false, true)
		}
		return l.loop(v.Body, v.Post, s, true, false)
	case *ast.RangeStmt:
		l.scan(v.X)
		return l.loop(v.Body, nil, s, true, false)
	case *ast.SwitchStmt:
		if v.Init != nil {
			s = l.stmt(v.Init, s)
		}
		l.scan(v.Tag)
		return l.clauses(v.Body.List, s, true)
	case *ast.TypeSwitchStmt:
		if v.Init != nil {
			s = l.stmt(v.Init, s)
		}
		l.scan(v.Assign)
		return l.clauses(v.Body.List, s, true)
	case *ast.SelectStmt:
		if len(v.Body.List) == 0 {
			return deadState()
		}
		return l.clauses(v.Body.List, s, false)
	default:
		l.scan(st)
	}
	return s
}
