#!/bin/sh
# usage: tools/run_seeded.sh [seeded/<dir> ...]   (default: all)
# For each confirmed property-breaking change: apply it to /repo, run the quick check of its property
# (and any extra checks named in meta.json "also"), undo it.  Appends to seeded/RESULTS.md.
cd "$(dirname "$0")/.."
dirs="$@"; [ -z "$dirs" ] && dirs=$(ls -d seeded/C*/ 2>/dev/null)
# evidence/ must only ever hold records of runs on the unchanged tree: keep it aside while changes are applied
keep=$(mktemp -d); cp -a evidence/. "$keep"/; trap 'cp -a "$keep"/. evidence/; rm -rf "$keep"' EXIT
for d in $dirs; do
  d=${d%/}
  [ -f "$d/patch.diff" ] || continue
  prop=$(python3 -c "import json;print(json.load(open('$d/meta.json'))['property'])")
  if ! git -C /repo diff --quiet; then echo "/repo has local changes; aborting"; exit 2; fi
  if ! git -C /repo apply "$PWD/$d/patch.diff"; then echo "| $d | $prop | patch does not apply | |" >> seeded/RESULTS.md; continue; fi
  out=$(bin/check $prop --tier quick 2>&1); rc=$?
  line=$(echo "$out" | grep -m1 "^VIOLATION" | cut -c1-160)
  if [ $rc -eq 0 ]; then
    # a change may break a clause that another property's check owns: meta.json "also" names those checks
    for other in $(python3 -c "import json;print(' '.join(json.load(open('$d/meta.json')).get('also',[])))"); do
      out=$(bin/check $other --tier quick 2>&1); rc=$?
      line=$(echo "$out" | grep -m1 "^VIOLATION" | cut -c1-160)
      [ $rc -ne 0 ] && { prop="$prop (reported by $other)"; break; }
    done
  fi
  git -C /repo checkout -- . ; git -C /repo clean -fdq
  what=$(python3 - <<PY
import json,glob,re
line="""$line"""
m=re.search(r"replay=(\S+)", line)
try:
    r=json.load(open(m.group(1))); print((r.get('kind','')+': '+(r.get('signature') or '')).replace('|','/').replace('\n',' ')[:220])
except Exception: print('')
PY
)
  verdict="MISSED"; [ $rc -ne 0 ] && [ -n "$line" ] && verdict="caught"
  echo "| $d | $prop | $verdict (exit $rc) | $what |" >> seeded/RESULTS.md
  echo "$d $prop $verdict"
done
