// gen_decisions serialises the bodies of gribigo's decision functions into
// the GoLite syntax of /verif/coq/theories/Base/GoLite.v.  It is a serialiser,
// not an interpreter: the semantics lives in Coq.  Any construct outside the
// subset becomes an expression that evaluates to "panic" in GoLite, so the
// theorems about the function stop checking rather than silently passing.
//
// What the serialiser itself decides (everything else is decided in Coq):
//   - `x := e` -> SDecl, `x = e` -> SSet, `recv.f = e` -> SSetField (recv = the method's receiver;
//     any other assignment target is unsupported);
//   - the receiver may only occur as `recv.field` or `recv.method(...)`; a bare use (copy, argument,
//     re-declaration of its name) is unsupported, so nothing aliases the receiver;
//   - `xs := f(...)` / `xs := recv.m(...)` -> SCallF / SCallM (calls as statements); a condition of
//     the exact form `recv.m(...)` or `!recv.m(...)` is hoisted in front of its `if`;
//     a receiver method anywhere else in an expression is a pure call (ECall), which GoLite
//     only knows for read-only methods;
//   - `if init; c {..} else {..}` is wrapped in a block so that init's variables do not escape;
//   - a parallel assignment `a, b := e1, e2` is split only if no ei mentions an assigned name;
//   - `recv.mu.Lock()/Unlock()/RLock()/RUnlock()` and `defer` of those, and log calls -> SSkip;
//   - `delete(recv.f, k)` -> SDelete;
//   - status / error constructors and literals containing slices are summarised by the enum
//     constants they mention (EOpaque); `&spb.T{k: e}` -> EMsg; `&T{k: e}` / `T{k: e}` -> ENew.
//   - "Modify.dispatch": the tagless switch of Modify's receive loop; each case body is summarised
//     by the receiver methods it calls / the status code it sends on errCh.
package main

import (
	"flag"
	"fmt"
	"go/ast"
	"go/parser"
	"go/token"
	"os"
	"sort"
	"strconv"
	"strings"
)

var pkgIdents = map[string]bool{"codes": true, "spb": true, "status": true, "log": true, "fmt": true, "uint128": true}

// recvName is the receiver of the method being translated ("" for a plain function).
var recvName string

var builtins = map[string]bool{"len": true, "cap": true, "append": true, "make": true, "new": true, "panic": true,
	"delete": true, "copy": true, "close": true, "print": true, "println": true, "recover": true, "min": true, "max": true}

func q(s string) string { return `"` + strings.ReplaceAll(s, `"`, `""`) + `"` }

func unsupported(what string) string {
	return fmt.Sprintf(`(ECall "UNSUPPORTED" [EStr %s])`, q(what))
}

// opaque summarises a constructed result (status error / response literal) by the
// enum constants it mentions; message texts are dropped on purpose.
func opaque(e ast.Node) string {
	var codes, details, results []string
	ast.Inspect(e, func(n ast.Node) bool {
		if s, ok := n.(*ast.SelectorExpr); ok {
			if id, ok := s.X.(*ast.Ident); ok {
				switch {
				case id.Name == "codes":
					codes = append(codes, s.Sel.Name)
				case id.Name == "spb" && (strings.HasPrefix(s.Sel.Name, "ModifyRPCErrorDetails_") || strings.HasPrefix(s.Sel.Name, "FlushResponseError_")):
					details = append(details, s.Sel.Name[strings.Index(s.Sel.Name, "_")+1:])
				case id.Name == "spb" && strings.HasPrefix(s.Sel.Name, "AFTResult_"):
					results = append(results, s.Sel.Name[len("AFTResult_"):])
				}
			}
		}
		return true
	})
	switch {
	case len(codes) > 0:
		return fmt.Sprintf("(EOpaque %s)", q("err:"+strings.Join(codes, "+")+":"+strings.Join(details, "+")))
	case len(results) > 0:
		return fmt.Sprintf("(EOpaque %s)", q("resp:"+strings.Join(results, "+")))
	}
	return "(EOpaque \"other\")"
}

func isRecv(e ast.Expr) bool {
	id, ok := e.(*ast.Ident)
	return ok && recvName != "" && id.Name == recvName
}

// structured translates a keyed struct literal of a named type whose values are expressions or
// nested such literals; ok=false for anything else (slices, positional fields, ...).
func structured(e ast.Expr) (string, bool) {
	if u, ok := e.(*ast.UnaryExpr); ok && u.Op == token.AND {
		e = u.X
	}
	cl, ok := e.(*ast.CompositeLit)
	if !ok {
		return "", false
	}
	ctor, ty := "", ""
	switch t := cl.Type.(type) {
	case *ast.Ident:
		ctor, ty = "ENew", t.Name
	case *ast.SelectorExpr:
		if id, ok := t.X.(*ast.Ident); ok && id.Name == "spb" {
			ctor, ty = "EMsg", t.Sel.Name
		}
	}
	if ctor == "" {
		return "", false
	}
	kvs := []string{}
	for _, el := range cl.Elts {
		kv, ok := el.(*ast.KeyValueExpr)
		if !ok {
			return "", false
		}
		k, ok := kv.Key.(*ast.Ident)
		if !ok {
			return "", false
		}
		var v string
		inner := kv.Value
		if u, ok := inner.(*ast.UnaryExpr); ok && u.Op == token.AND {
			inner = u.X
		}
		if _, isLit := inner.(*ast.CompositeLit); isLit {
			s, ok := structured(kv.Value)
			if !ok {
				return "", false
			}
			v = s
		} else {
			v = expr(kv.Value)
		}
		kvs = append(kvs, fmt.Sprintf("(%s, %s)", q(k.Name), v))
	}
	return fmt.Sprintf("(%s %s [%s])", ctor, q(ty), strings.Join(kvs, "; ")), true
}

func mentionsResultOrCode(e ast.Node) bool {
	found := false
	ast.Inspect(e, func(n ast.Node) bool {
		if s, ok := n.(*ast.SelectorExpr); ok {
			if id, ok := s.X.(*ast.Ident); ok {
				if id.Name == "codes" || (id.Name == "spb" && (strings.HasPrefix(s.Sel.Name, "AFTResult_") ||
					strings.HasPrefix(s.Sel.Name, "ModifyRPCErrorDetails_") || strings.HasPrefix(s.Sel.Name, "FlushResponseError_"))) {
					found = true
				}
			}
		}
		return true
	})
	return found
}

func literal(e ast.Expr) string {
	if !mentionsResultOrCode(e) {
		if s, ok := structured(e); ok {
			return s
		}
	}
	return opaque(e)
}

func exprs(l []ast.Expr) string {
	out := []string{}
	for _, a := range l {
		out = append(out, expr(a))
	}
	return strings.Join(out, "; ")
}

func expr(e ast.Expr) string {
	switch v := e.(type) {
	case *ast.ParenExpr:
		return expr(v.X)
	case *ast.Ident:
		switch v.Name {
		case "nil":
			return "ENil"
		case "true":
			return "(EBool true)"
		case "false":
			return "(EBool false)"
		}
		if isRecv(v) {
			return unsupported("receiver used as a value")
		}
		return fmt.Sprintf("(EVar %s)", q(v.Name))
	case *ast.BasicLit:
		switch v.Kind {
		case token.INT:
			n, err := strconv.ParseUint(v.Value, 0, 64)
			if err != nil {
				return unsupported("int literal " + v.Value)
			}
			return fmt.Sprintf("(ENum %d%%N)", n)
		case token.STRING:
			s, err := strconv.Unquote(v.Value)
			if err != nil {
				return unsupported("string literal")
			}
			return fmt.Sprintf("(EStr %s)", q(s))
		}
		return unsupported("literal " + v.Value)
	case *ast.SelectorExpr:
		if id, ok := v.X.(*ast.Ident); ok && pkgIdents[id.Name] {
			if id.Name == "spb" && strings.Contains(v.Sel.Name, "_") {
				return fmt.Sprintf("(EConst %s)", q(v.Sel.Name))
			}
			return unsupported("package selector " + id.Name + "." + v.Sel.Name)
		}
		if isRecv(v.X) {
			return fmt.Sprintf("(ESel (EVar %s) %s)", q(recvName), q(v.Sel.Name))
		}
		return fmt.Sprintf("(ESel %s %s)", expr(v.X), q(v.Sel.Name))
	case *ast.BinaryExpr:
		switch v.Op {
		case token.EQL, token.NEQ, token.LSS, token.GTR, token.LEQ, token.GEQ, token.LAND, token.LOR:
			return fmt.Sprintf("(EBin %s %s %s)", q(v.Op.String()), expr(v.X), expr(v.Y))
		}
		return unsupported("binary operator " + v.Op.String())
	case *ast.UnaryExpr:
		switch v.Op {
		case token.NOT:
			return fmt.Sprintf("(ENot %s)", expr(v.X))
		case token.AND:
			if _, ok := v.X.(*ast.CompositeLit); ok {
				return literal(v)
			}
			return unsupported("address-of")
		}
		return unsupported("unary operator " + v.Op.String())
	case *ast.CompositeLit:
		return literal(v)
	case *ast.CallExpr:
		switch f := v.Fun.(type) {
		case *ast.Ident:
			if strings.HasPrefix(f.Name, "add") && strings.HasSuffix(f.Name, "ErrDetailsOrReturn") {
				return opaque(v)
			}
			return unsupported("call of " + f.Name)
		case *ast.SelectorExpr:
			if id, ok := f.X.(*ast.Ident); ok && pkgIdents[id.Name] {
				switch {
				case id.Name == "uint128" && f.Sel.Name == "New":
					return fmt.Sprintf("(ECall \"uint128.New\" [%s])", exprs(v.Args))
				case id.Name == "status":
					return opaque(v)
				}
				return unsupported("call of " + id.Name + "." + f.Sel.Name)
			}
			// status.Newf(...).Err()
			if f.Sel.Name == "Err" && len(v.Args) == 0 {
				if _, ok := f.X.(*ast.CallExpr); ok {
					return opaque(v)
				}
			}
			var rcv string
			if isRecv(f.X) {
				rcv = fmt.Sprintf("(EVar %s)", q(recvName)) // a pure (read-only) method of the receiver
			} else {
				rcv = expr(f.X)
			}
			all := rcv
			if len(v.Args) > 0 {
				all += "; " + exprs(v.Args)
			}
			return fmt.Sprintf("(ECall %s [%s])", q(f.Sel.Name), all)
		}
		return unsupported("call")
	}
	return unsupported(fmt.Sprintf("%T", e))
}

func block(b *ast.BlockStmt) string {
	if b == nil {
		return "[]"
	}
	return stmts(b.List)
}

func stmts(l []ast.Stmt) string {
	out := []string{}
	for _, s := range l {
		out = append(out, stmt(s)...)
	}
	return "[" + strings.Join(out, ";\n ") + "]"
}

func isLogCall(e ast.Expr) bool {
	c, ok := e.(*ast.CallExpr)
	if !ok {
		return false
	}
	s, ok := c.Fun.(*ast.SelectorExpr)
	if !ok {
		return false
	}
	if id, ok := s.X.(*ast.Ident); ok && id.Name == "log" {
		return true
	}
	// log.V(2).Infof(...)
	if inner, ok := s.X.(*ast.CallExpr); ok {
		if is, ok := inner.Fun.(*ast.SelectorExpr); ok {
			if id, ok := is.X.(*ast.Ident); ok && id.Name == "log" {
				return true
			}
		}
	}
	return false
}

// recv.<field>.Lock() / Unlock() / RLock() / RUnlock()
func isLockCall(e ast.Expr) bool {
	c, ok := e.(*ast.CallExpr)
	if !ok || len(c.Args) != 0 {
		return false
	}
	s, ok := c.Fun.(*ast.SelectorExpr)
	if !ok {
		return false
	}
	switch s.Sel.Name {
	case "Lock", "Unlock", "RLock", "RUnlock":
	default:
		return false
	}
	f, ok := s.X.(*ast.SelectorExpr)
	return ok && isRecv(f.X)
}

func bad(what string) []string {
	return []string{fmt.Sprintf("SDecl \"_\" %s", unsupported(what))}
}

// recvMethodCall: e is recv.m(args)
func recvMethodCall(e ast.Expr) (*ast.CallExpr, string, bool) {
	c, ok := e.(*ast.CallExpr)
	if !ok {
		return nil, "", false
	}
	s, ok := c.Fun.(*ast.SelectorExpr)
	if !ok || !isRecv(s.X) {
		return nil, "", false
	}
	return c, s.Sel.Name, true
}

// plainCall: e is f(args), f a function of the package (not a builtin, not an error constructor)
func plainCall(e ast.Expr) (*ast.CallExpr, string, bool) {
	c, ok := e.(*ast.CallExpr)
	if !ok {
		return nil, "", false
	}
	id, ok := c.Fun.(*ast.Ident)
	if !ok || builtins[id.Name] || (strings.HasPrefix(id.Name, "add") && strings.HasSuffix(id.Name, "ErrDetailsOrReturn")) {
		return nil, "", false
	}
	return c, id.Name, true
}

func names(l []ast.Expr) ([]string, bool) {
	out := []string{}
	for _, e := range l {
		id, ok := e.(*ast.Ident)
		if !ok || (recvName != "" && id.Name == recvName) {
			return nil, false
		}
		out = append(out, q(id.Name))
	}
	return out, true
}

func mentions(e ast.Expr, name string) bool {
	found := false
	ast.Inspect(e, func(n ast.Node) bool {
		if id, ok := n.(*ast.Ident); ok && id.Name == name {
			found = true
		}
		return true
	})
	return found
}

func coqBool(b bool) string {
	if b {
		return "true"
	}
	return "false"
}

func assign(v *ast.AssignStmt) []string {
	if v.Tok != token.DEFINE && v.Tok != token.ASSIGN {
		return bad("assignment operator " + v.Tok.String())
	}
	decl := v.Tok == token.DEFINE
	// xs := call(...)
	if len(v.Rhs) == 1 {
		if c, m, ok := recvMethodCall(v.Rhs[0]); ok {
			xs, ok := names(v.Lhs)
			if !ok {
				return bad("call result assigned to a non-variable")
			}
			return []string{fmt.Sprintf("SCallM %s [%s] %s %s [%s]", coqBool(decl), strings.Join(xs, "; "), q(recvName), q(m), exprs(c.Args))}
		}
		if c, f, ok := plainCall(v.Rhs[0]); ok {
			xs, ok := names(v.Lhs)
			if !ok {
				return bad("call result assigned to a non-variable")
			}
			return []string{fmt.Sprintf("SCallF %s [%s] %s [%s]", coqBool(decl), strings.Join(xs, "; "), q(f), exprs(c.Args))}
		}
	}
	if len(v.Lhs) != len(v.Rhs) {
		return bad("assignment form")
	}
	if len(v.Lhs) > 1 {
		for _, l := range v.Lhs {
			id, ok := l.(*ast.Ident)
			if !ok {
				return bad("parallel assignment to a non-variable")
			}
			for _, r := range v.Rhs {
				if id.Name != "_" && mentions(r, id.Name) {
					return bad("parallel assignment whose right side mentions an assigned variable")
				}
			}
		}
	}
	out := []string{}
	for i := range v.Lhs {
		switch l := v.Lhs[i].(type) {
		case *ast.Ident:
			if recvName != "" && l.Name == recvName {
				return bad("assignment to the receiver")
			}
			if decl {
				out = append(out, fmt.Sprintf("SDecl %s %s", q(l.Name), expr(v.Rhs[i])))
			} else {
				out = append(out, fmt.Sprintf("SSet %s %s", q(l.Name), expr(v.Rhs[i])))
			}
		case *ast.SelectorExpr:
			if decl || !isRecv(l.X) {
				return bad("assignment to a field of something other than the receiver")
			}
			out = append(out, fmt.Sprintf("SSetField %s %s %s", q(recvName), q(l.Sel.Name), expr(v.Rhs[i])))
		default:
			return bad("assignment to non-identifier")
		}
	}
	return out
}

var hoistN int

func stmt(s ast.Stmt) []string {
	switch v := s.(type) {
	case *ast.ReturnStmt:
		return []string{fmt.Sprintf("SReturn [%s]", exprs(v.Results))}
	case *ast.ExprStmt:
		if isLogCall(v.X) || isLockCall(v.X) {
			return []string{"SSkip"}
		}
		if c, ok := v.X.(*ast.CallExpr); ok {
			if id, ok := c.Fun.(*ast.Ident); ok && id.Name == "delete" && len(c.Args) == 2 {
				if sel, ok := c.Args[0].(*ast.SelectorExpr); ok && isRecv(sel.X) {
					return []string{fmt.Sprintf("SDelete %s %s %s", q(recvName), q(sel.Sel.Name), expr(c.Args[1]))}
				}
				return bad("delete on something other than a field of the receiver")
			}
		}
		if c, m, ok := recvMethodCall(v.X); ok {
			return []string{fmt.Sprintf("SCallM true [] %s %s [%s]", q(recvName), q(m), exprs(c.Args))}
		}
		return bad("expression statement")
	case *ast.DeferStmt:
		if isLockCall(v.Call) {
			return []string{"SSkip"}
		}
		return bad("defer")
	case *ast.AssignStmt:
		return assign(v)
	case *ast.BlockStmt:
		return []string{fmt.Sprintf("SIf (EBool true) %s []", block(v))}
	case *ast.IfStmt:
		pre := []string{}
		if v.Init != nil {
			pre = stmt(v.Init)
		}
		el := "[]"
		switch e := v.Else.(type) {
		case *ast.BlockStmt:
			el = block(e)
		case *ast.IfStmt:
			el = "[" + strings.Join(stmt(e), ";\n ") + "]"
		}
		cond := ""
		inner := v.Cond
		neg := false
		if u, ok := inner.(*ast.UnaryExpr); ok && u.Op == token.NOT {
			inner, neg = u.X, true
		}
		if c, m, ok := recvMethodCall(inner); ok {
			// the call is the first (and only) thing the condition evaluates: hoist it
			hoistN++
			tmp := fmt.Sprintf("%%cond%d", hoistN)
			pre = append(pre, fmt.Sprintf("SCallM true [%s] %s %s [%s]", q(tmp), q(recvName), q(m), exprs(c.Args)))
			cond = fmt.Sprintf("(EVar %s)", q(tmp))
			if neg {
				cond = fmt.Sprintf("(ENot %s)", cond)
			}
		} else {
			cond = expr(v.Cond)
		}
		ifs := fmt.Sprintf("SIf %s %s %s", cond, block(v.Body), el)
		if len(pre) == 0 {
			return []string{ifs}
		}
		// the scope of the init statement (and of the hoisted temporary) is the if statement
		return []string{fmt.Sprintf("SIf (EBool true) [%s] []", strings.Join(append(pre, ifs), ";\n "))}
	case *ast.SwitchStmt:
		if v.Tag != nil || v.Init != nil {
			return bad("tagged switch")
		}
		return []string{tagless(v, stmts)}
	case *ast.EmptyStmt:
		return []string{"SSkip"}
	}
	return bad(fmt.Sprintf("%T", s))
}

// tagless switch without fallthrough == if / else-if chain over (c1 || c2 || ...)
func tagless(v *ast.SwitchStmt, body func([]ast.Stmt) string) string {
	type cc struct {
		cond string
		body string
	}
	var cases []cc
	dflt := "[]"
	for _, c := range v.Body.List {
		cl := c.(*ast.CaseClause)
		esc := false
		ast.Inspect(cl, func(n ast.Node) bool {
			if br, ok := n.(*ast.BranchStmt); ok && (br.Tok == token.FALLTHROUGH || br.Tok == token.BREAK || br.Tok == token.GOTO) {
				esc = true
			}
			return true
		})
		if esc {
			return bad("fallthrough / break in switch")[0]
		}
		if cl.List == nil {
			dflt = body(cl.Body)
			continue
		}
		cond := expr(cl.List[0])
		for _, e := range cl.List[1:] {
			cond = fmt.Sprintf("(EBin \"||\" %s %s)", cond, expr(e))
		}
		cases = append(cases, cc{cond, body(cl.Body)})
	}
	res := dflt
	for i := len(cases) - 1; i >= 0; i-- {
		res = fmt.Sprintf("[SIf %s %s %s]", cases[i].cond, cases[i].body, res)
	}
	if len(cases) == 0 {
		return "SIf (EBool true) " + dflt + " []"
	}
	return strings.TrimSuffix(strings.TrimPrefix(res, "["), "]")
}

// summary of one case of the dispatch switch: which receiver methods it calls (in source order),
// else which status it sends on a channel at the top level of the case, else "skip".
func summary(l []ast.Stmt) string {
	var calls []string
	for _, s := range l {
		ast.Inspect(s, func(n ast.Node) bool {
			if c, ok := n.(*ast.CallExpr); ok {
				if _, m, ok := recvMethodCall(c); ok {
					calls = append(calls, m)
				}
			}
			return true
		})
	}
	if len(calls) > 0 {
		return fmt.Sprintf("[SReturn [EStr %s]]", q("call:"+strings.Join(calls, "+")))
	}
	for i, s := range l {
		if snd, ok := s.(*ast.SendStmt); ok && i+1 < len(l) {
			if _, ok := l[i+1].(*ast.ReturnStmt); ok {
				return fmt.Sprintf("[SReturn [%s]]", opaque(snd.Value))
			}
		}
	}
	for _, s := range l {
		switch s.(type) {
		case *ast.SendStmt, *ast.ReturnStmt, *ast.GoStmt:
			return "[SReturn [" + unsupported("unrecognised case of the dispatch switch") + "]]"
		}
	}
	return "[SReturn [EStr \"skip\"]]"
}

// the dispatch switch of Modify: the first tagless switch (in source order) inside a function
// literal of fd whose cases test the fields of one message variable
func dispatch(fd *ast.FuncDecl) (string, bool) {
	var sw *ast.SwitchStmt
	ast.Inspect(fd.Body, func(n ast.Node) bool {
		if sw != nil {
			return false
		}
		if fl, ok := n.(*ast.FuncLit); ok {
			ast.Inspect(fl.Body, func(m ast.Node) bool {
				if s, ok := m.(*ast.SwitchStmt); ok && sw == nil && s.Tag == nil && s.Init == nil {
					sw = s
				}
				return sw == nil
			})
		}
		return true
	})
	if sw == nil {
		return "", false
	}
	return "[" + tagless(sw, summary) + "]", true
}

func main() {
	src := flag.String("src", "/repo/server/server.go", "source file")
	out := flag.String("out", "", "output .v file")
	fns := flag.String("funcs", "isNewMaster,checkElectionForModify,checkFlushRequest,runElection,checkParams,deleteClient,Modify.dispatch", "functions (F.dispatch = the message switch inside F)")
	flag.Parse()
	fset := token.NewFileSet()
	f, err := parser.ParseFile(fset, *src, nil, 0)
	if err != nil {
		fmt.Fprintln(os.Stderr, err)
		os.Exit(2)
	}
	want := map[string]bool{}
	for _, n := range strings.Split(*fns, ",") {
		want[n] = true
	}
	found := map[string]string{}
	plain := []string{}
	for _, d := range f.Decls {
		fd, ok := d.(*ast.FuncDecl)
		if !ok || fd.Body == nil {
			continue
		}
		recvName = ""
		if fd.Recv != nil {
			for _, p := range fd.Recv.List {
				for _, n := range p.Names {
					recvName = n.Name
				}
			}
		}
		if want[fd.Name.Name+".dispatch"] {
			coq := fd.Name.Name + "_dispatch"
			if body, ok := dispatch(fd); ok {
				found[fd.Name.Name+".dispatch"] = fmt.Sprintf("Definition %s_body : list gstmt :=\n %s.\n", coq, body)
			}
		}
		if !want[fd.Name.Name] {
			continue
		}
		params := []string{}
		if recvName != "" {
			params = append(params, q(recvName))
		}
		for _, p := range fd.Type.Params.List {
			for _, n := range p.Names {
				params = append(params, q(n.Name))
			}
		}
		if recvName == "" {
			plain = append(plain, fd.Name.Name)
		}
		found[fd.Name.Name] = fmt.Sprintf("Definition %s_params : list string := [%s].\nDefinition %s_body : list gstmt :=\n %s.\n",
			fd.Name.Name, strings.Join(params, "; "), fd.Name.Name, stmts(fd.Body.List))
	}
	var b strings.Builder
	b.WriteString("(* GENERATED by /verif/tools/gen_decisions from " + *src + " on every check run. Do not edit. *)\n")
	b.WriteString("From Coq Require Import List String NArith ZArith.\nFrom GV.Base Require Import GoLite.\nImport ListNotations.\nOpen Scope string_scope.\n\n")
	names := []string{}
	for n := range want {
		names = append(names, n)
	}
	sort.Strings(names)
	for _, n := range names {
		if s, ok := found[n]; ok {
			b.WriteString(s + "\n")
		} else if strings.HasSuffix(n, ".dispatch") {
			b.WriteString(fmt.Sprintf("Definition %s_body : list gstmt := [SDecl \"_\" %s].\n\n", strings.ReplaceAll(n, ".", "_"), unsupported(n+" not found")))
		} else {
			// function vanished: a body that panics, so every theorem about it stops checking
			b.WriteString(fmt.Sprintf("Definition %s_params : list string := [].\nDefinition %s_body : list gstmt := [SDecl \"_\" %s].\n\n", n, n, unsupported("function "+n+" not found")))
		}
	}
	// the translated plain functions, callable from the translated methods (SCallF)
	sort.Strings(plain)
	defs := []string{}
	for _, n := range plain {
		defs = append(defs, fmt.Sprintf("(%s, (%s_params, %s_body))", q(n), n, n))
	}
	b.WriteString("Definition decisions_funs : fundefs :=\n [" + strings.Join(defs, ";\n  ") + "].\n")
	if *out == "" {
		fmt.Print(b.String())
		return
	}
	if err := os.WriteFile(*out, []byte(b.String()), 0o644); err != nil {
		fmt.Fprintln(os.Stderr, err)
		os.Exit(2)
	}
}
