// gen_decisions serialises the bodies of gribigo's pure decision functions into
// the GoLite syntax of /verif/coq/theories/Base/GoLite.v.  It is a serialiser,
// not an interpreter: the semantics lives in Coq.  Any construct outside the
// subset becomes an expression that evaluates to "panic" in GoLite, so the
// theorems about the function stop checking rather than silently passing.
package main

import (
	"flag"
	"fmt"
	"go/ast"
	"go/parser"
	"go/token"
	"os"
	"sort"
	"strconv"
	"strings"
)

var pkgIdents = map[string]bool{"codes": true, "spb": true, "status": true, "log": true, "fmt": true, "uint128": true}

func q(s string) string { return `"` + strings.ReplaceAll(s, `"`, `""`) + `"` }

func unsupported(what string) string {
	return fmt.Sprintf(`(ECall "UNSUPPORTED" [EStr %s])`, q(what))
}

// opaque summarises a constructed result (status error / response literal) by the
// enum constants it mentions; message texts are dropped on purpose.
func opaque(e ast.Expr) string {
	var codes, details, results []string
	ast.Inspect(e, func(n ast.Node) bool {
		if s, ok := n.(*ast.SelectorExpr); ok {
			if id, ok := s.X.(*ast.Ident); ok {
				switch {
				case id.Name == "codes":
					codes = append(codes, s.Sel.Name)
				case id.Name == "spb" && (strings.HasPrefix(s.Sel.Name, "ModifyRPCErrorDetails_") || strings.HasPrefix(s.Sel.Name, "FlushResponseError_")):
					details = append(details, s.Sel.Name[strings.Index(s.Sel.Name, "_")+1:])
				case id.Name == "spb" && strings.HasPrefix(s.Sel.Name, "AFTResult_"):
					results = append(results, s.Sel.Name[len("AFTResult_"):])
				}
			}
		}
		return true
	})
	switch {
	case len(codes) > 0:
		return fmt.Sprintf("(EOpaque %s)", q("err:"+strings.Join(codes, "+")+":"+strings.Join(details, "+")))
	case len(results) > 0:
		return fmt.Sprintf("(EOpaque %s)", q("resp:"+strings.Join(results, "+")))
	}
	return "(EOpaque \"other\")"
}

func expr(e ast.Expr) string {
	switch v := e.(type) {
	case *ast.ParenExpr:
		return expr(v.X)
	case *ast.Ident:
		switch v.Name {
		case "nil":
			return "ENil"
		case "true":
			return "(EBool true)"
		case "false":
			return "(EBool false)"
		}
		return fmt.Sprintf("(EVar %s)", q(v.Name))
	case *ast.BasicLit:
		switch v.Kind {
		case token.INT:
			n, err := strconv.ParseUint(v.Value, 0, 64)
			if err != nil {
				return unsupported("int literal " + v.Value)
			}
			return fmt.Sprintf("(ENum %d%%N)", n)
		case token.STRING:
			s, err := strconv.Unquote(v.Value)
			if err != nil {
				return unsupported("string literal")
			}
			return fmt.Sprintf("(EStr %s)", q(s))
		}
		return unsupported("literal " + v.Value)
	case *ast.SelectorExpr:
		if id, ok := v.X.(*ast.Ident); ok && pkgIdents[id.Name] {
			return unsupported("package selector " + id.Name + "." + v.Sel.Name)
		}
		return fmt.Sprintf("(ESel %s %s)", expr(v.X), q(v.Sel.Name))
	case *ast.BinaryExpr:
		switch v.Op {
		case token.EQL, token.NEQ, token.LSS, token.GTR, token.LEQ, token.GEQ, token.LAND, token.LOR:
			return fmt.Sprintf("(EBin %s %s %s)", q(v.Op.String()), expr(v.X), expr(v.Y))
		}
		return unsupported("binary operator " + v.Op.String())
	case *ast.UnaryExpr:
		switch v.Op {
		case token.NOT:
			return fmt.Sprintf("(ENot %s)", expr(v.X))
		case token.AND:
			return opaque(v)
		}
		return unsupported("unary operator " + v.Op.String())
	case *ast.CompositeLit:
		return opaque(v)
	case *ast.CallExpr:
		args := []string{}
		for _, a := range v.Args {
			args = append(args, expr(a))
		}
		switch f := v.Fun.(type) {
		case *ast.Ident:
			if strings.HasPrefix(f.Name, "add") && strings.HasSuffix(f.Name, "ErrDetailsOrReturn") {
				return opaque(v)
			}
			return unsupported("call of " + f.Name)
		case *ast.SelectorExpr:
			if id, ok := f.X.(*ast.Ident); ok && pkgIdents[id.Name] {
				switch {
				case id.Name == "uint128" && f.Sel.Name == "New":
					return fmt.Sprintf("(ECall \"uint128.New\" [%s])", strings.Join(args, "; "))
				case id.Name == "status":
					return opaque(v)
				}
				return unsupported("call of " + id.Name + "." + f.Sel.Name)
			}
			// status.Newf(...).Err()
			if f.Sel.Name == "Err" && len(v.Args) == 0 {
				if _, ok := f.X.(*ast.CallExpr); ok {
					return opaque(v)
				}
			}
			all := append([]string{expr(f.X)}, args...)
			return fmt.Sprintf("(ECall %s [%s])", q(f.Sel.Name), strings.Join(all, "; "))
		}
		return unsupported("call")
	}
	return unsupported(fmt.Sprintf("%T", e))
}

func block(b *ast.BlockStmt) string {
	if b == nil {
		return "[]"
	}
	return stmts(b.List)
}

func stmts(l []ast.Stmt) string {
	out := []string{}
	for _, s := range l {
		out = append(out, stmt(s)...)
	}
	return "[" + strings.Join(out, ";\n ") + "]"
}

func isLogCall(e ast.Expr) bool {
	c, ok := e.(*ast.CallExpr)
	if !ok {
		return false
	}
	s, ok := c.Fun.(*ast.SelectorExpr)
	if !ok {
		return false
	}
	if id, ok := s.X.(*ast.Ident); ok && id.Name == "log" {
		return true
	}
	// log.V(2).Infof(...)
	if inner, ok := s.X.(*ast.CallExpr); ok {
		if is, ok := inner.Fun.(*ast.SelectorExpr); ok {
			if id, ok := is.X.(*ast.Ident); ok && id.Name == "log" {
				return true
			}
		}
	}
	return false
}

func bad(what string) []string {
	return []string{fmt.Sprintf("SAssign \"_\" %s", unsupported(what))}
}

func stmt(s ast.Stmt) []string {
	switch v := s.(type) {
	case *ast.ReturnStmt:
		rs := []string{}
		for _, r := range v.Results {
			rs = append(rs, expr(r))
		}
		return []string{fmt.Sprintf("SReturn [%s]", strings.Join(rs, "; "))}
	case *ast.ExprStmt:
		if isLogCall(v.X) {
			return []string{"SSkip"}
		}
		return bad("expression statement")
	case *ast.AssignStmt:
		if (v.Tok != token.DEFINE && v.Tok != token.ASSIGN) || len(v.Lhs) != len(v.Rhs) {
			return bad("assignment form")
		}
		out := []string{}
		for i := range v.Lhs {
			id, ok := v.Lhs[i].(*ast.Ident)
			if !ok {
				return bad("assignment to non-identifier")
			}
			out = append(out, fmt.Sprintf("SAssign %s %s", q(id.Name), expr(v.Rhs[i])))
		}
		return out
	case *ast.IfStmt:
		pre := []string{}
		if v.Init != nil {
			pre = stmt(v.Init)
		}
		el := "[]"
		switch e := v.Else.(type) {
		case *ast.BlockStmt:
			el = block(e)
		case *ast.IfStmt:
			el = "[" + strings.Join(stmt(e), ";\n ") + "]"
		}
		return append(pre, fmt.Sprintf("SIf %s %s %s", expr(v.Cond), block(v.Body), el))
	case *ast.SwitchStmt:
		if v.Tag != nil || v.Init != nil {
			return bad("tagged switch")
		}
		// tagless switch without fallthrough == if / else-if chain over (c1 || c2 || ...)
		type cc struct {
			cond string
			body string
		}
		var cases []cc
		dflt := "[]"
		for _, c := range v.Body.List {
			cl := c.(*ast.CaseClause)
			for _, b := range cl.Body {
				if br, ok := b.(*ast.BranchStmt); ok && br.Tok == token.FALLTHROUGH {
					return bad("fallthrough")
				}
			}
			if cl.List == nil {
				dflt = stmts(cl.Body)
				continue
			}
			cond := expr(cl.List[0])
			for _, e := range cl.List[1:] {
				cond = fmt.Sprintf("(EBin \"||\" %s %s)", cond, expr(e))
			}
			cases = append(cases, cc{cond, stmts(cl.Body)})
		}
		res := dflt
		for i := len(cases) - 1; i >= 0; i-- {
			res = fmt.Sprintf("[SIf %s %s %s]", cases[i].cond, cases[i].body, res)
		}
		if len(cases) == 0 {
			return []string{"SIf (EBool true) " + dflt + " []"}
		}
		return []string{strings.TrimSuffix(strings.TrimPrefix(res, "["), "]")}
	case *ast.EmptyStmt:
		return []string{"SSkip"}
	}
	return bad(fmt.Sprintf("%T", s))
}

func main() {
	src := flag.String("src", "/repo/server/server.go", "source file")
	out := flag.String("out", "", "output .v file")
	fns := flag.String("funcs", "isNewMaster,checkElectionForModify,checkFlushRequest", "functions")
	flag.Parse()
	fset := token.NewFileSet()
	f, err := parser.ParseFile(fset, *src, nil, 0)
	if err != nil {
		fmt.Fprintln(os.Stderr, err)
		os.Exit(2)
	}
	want := map[string]bool{}
	for _, n := range strings.Split(*fns, ",") {
		want[n] = true
	}
	found := map[string]string{}
	for _, d := range f.Decls {
		fd, ok := d.(*ast.FuncDecl)
		if !ok || !want[fd.Name.Name] || fd.Body == nil {
			continue
		}
		params := []string{}
		if fd.Recv != nil {
			for _, p := range fd.Recv.List {
				for _, n := range p.Names {
					params = append(params, q(n.Name))
				}
			}
		}
		for _, p := range fd.Type.Params.List {
			for _, n := range p.Names {
				params = append(params, q(n.Name))
			}
		}
		found[fd.Name.Name] = fmt.Sprintf("Definition %s_params : list string := [%s].\nDefinition %s_body : list gstmt :=\n %s.\n",
			fd.Name.Name, strings.Join(params, "; "), fd.Name.Name, stmts(fd.Body.List))
	}
	var b strings.Builder
	b.WriteString("(* GENERATED by /verif/tools/gen_decisions from " + *src + " on every check run. Do not edit. *)\n")
	b.WriteString("From Coq Require Import List String NArith ZArith.\nFrom GV.Base Require Import GoLite.\nImport ListNotations.\nOpen Scope string_scope.\n\n")
	names := []string{}
	for n := range want {
		names = append(names, n)
	}
	sort.Strings(names)
	for _, n := range names {
		if s, ok := found[n]; ok {
			b.WriteString(s + "\n")
		} else {
			// function vanished: a body that panics, so every theorem about it stops checking
			b.WriteString(fmt.Sprintf("Definition %s_params : list string := [].\nDefinition %s_body : list gstmt := [SAssign \"_\" %s].\n\n", n, n, unsupported("function "+n+" not found")))
		}
	}
	if *out == "" {
		fmt.Print(b.String())
		return
	}
	if err := os.WriteFile(*out, []byte(b.String()), 0o644); err != nil {
		fmt.Fprintln(os.Stderr, err)
		os.Exit(2)
	}
}
