#!/bin/sh
# usage: scratch_harness.sh <repo-worktree> <outdir> : build the vh harness against another gribigo tree
# (scratch copy of /verif/harness with its replace directive pointed at the worktree)
set -e
wt=$1; out=$2
rm -rf "$out"; mkdir -p "$out"
cp -r /verif/harness/. "$out/"
sed -i "s#replace github.com/openconfig/gribigo => /repo#replace github.com/openconfig/gribigo => $wt#" "$out/go.mod"
cp "$wt/go.sum" "$out/go.sum"
cd "$out" && GOFLAGS=-mod=mod GOPROXY=off go build -tags verif -o "$out/vh" ./cmd/vh
