#!/bin/sh
# Statement coverage of /repo's packages under the quick-tier harness runs (a measure of generator reach, not a
# check): builds coverage-instrumented harness binaries in a scratch directory, runs every sub-command at its quick
# size, prints the per-package percentage and the uncovered blocks of rib.go / server.go grouped by function.
set -e
V=$(cd "$(dirname "$0")/.." && pwd); W=$(mktemp -d); trap 'rm -rf "$W"' EXIT
mkdir -p "$W/bin" "$W/data" "$W/out"
export GOFLAGS=-mod=mod GOPROXY=off
cd "$V/harness"
for b in vh vh-c07 vh-c13 vh-c14 vh-c15 vh-c16 vh-c17 vh-c18 vh-c19; do
  go build -tags verif -cover -coverpkg=github.com/openconfig/gribigo/...,verifharness/cmd/$b -o "$W/bin/$b" ./cmd/$b 2>&1 | grep -v '^warning' || true
done
run() { b=$1; shift; GOCOVERDIR="$W/data" "$W/bin/$b" "$@" -out "$W/out" >/dev/null 2>&1 || echo "FAILED: $b $*"; }
cd "$W"
run vh c01 -seed 1 -n 300; run vh c01srv -seed 1 -n 60; run vh c02 -seed 1 -n 300; run vh c03 -seed 1 -n 200
run vh c04 -seed 1 -n 250; run vh c05 -seed 1 -n 150; run vh c05conc -seed 1 -n 40; run vh c06 -seed 1 -n 250
run vh c08 -seed 1 -n 250; run vh c09 -seed 1 -n 300; run vh c10 -seed 1 -n 40; run vh c12 -seed 1 -n 145
run vh-c07 c07 -seed 1 -n 160; run vh-c07 c07conc -seed 1 -n 4; run vh-c13 c13 -seed 1 -n 400; run vh-c13 c13race -seed 1 -n 8
run vh-c13 c13ack -seed 1 -n 20; run vh-c14 c14 -seed 1 -n 25; run vh-c15 c15 -seed 1 -n 400; run vh-c16 c16 -seed 1 -n 600
run vh-c17 c17 -seed 1 -n 3000; run vh-c18 c18 -seed 1 -n 1000; run vh-c19 c19 -seed 1 -n 1 -tier quick
cd /repo
go tool covdata percent -i="$W/data" | grep gribigo
go tool covdata textfmt -i="$W/data" -o "$W/profile.txt"
python3 - "$W/profile.txt" <<'PY'
import re, sys, collections
cov, allb = set(), []
for l in open(sys.argv[1]):
    m = re.match(r'(\S+):(\d+)\.\d+,(\d+)\.\d+ (\d+) (\d+)', l)
    if m:
        f, a, b, n, c = m.group(1), int(m.group(2)), int(m.group(3)), int(m.group(4)), int(m.group(5))
        allb.append((f, a, b, c))
        if c > 0: cov.add((f, a, b))
for name, path in (('rib/rib.go', '/repo/rib/rib.go'), ('server/server.go', '/repo/server/server.go')):
    src = open(path).read().split('\n')
    funcs = [(i + 1, l) for i, l in enumerate(src) if l.startswith('func ')]
    out = collections.OrderedDict()
    for f, a, b, c in sorted(set(allb)):
        if f.endswith(name) and c == 0 and (f, a, b) not in cov:
            fn = [l for i, l in funcs if i <= a]
            out.setdefault(fn[-1][:70] if fn else '?', []).append(a)
    print('uncovered blocks of', name)
    for k, v in out.items(): print('   ', k, sorted(set(v)))
PY
