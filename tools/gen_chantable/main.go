// gen_chantable derives, from the current source of packages rib and server, a table of every channel
// operation (send, receive, close, range) per function / function literal ("unit": a declared function, the
// body of a goroutine, of a deferred call, of a local closure), with its syntactic context:
//   - the channel, named "Unit/variable" by the unit that declares the variable,
//   - whether it is the comm of a select clause, the comms of the other clauses, whether there is a default,
//   - whether it is inside a loop / inside a conditional, performed by a defer, preceded by a return or go,
//   - what is executed next (return, continue, end of loop body, end of unit, something else),
//   - the locks of rib / server held locally (same linear tracker as gen_locktable),
//
// interleaved, in source order, with the calls that matter for channels (go / defer / call of a function
// literal or local closure; calls of declared functions that are handed a channel, with the binding
// parameter := argument) and the return statements (with what precedes them in their block).
// It is a serialiser: what the table must satisfy is stated and checked in Coq (Conc/ChanDefs.v,
// Conc/ChanFacts.v).  Types are resolved with go/types using a stub importer for everything outside the
// two packages (as gen_locktable).  Standard library only.
package main

import (
	"bytes"
	"flag"
	"fmt"
	"go/ast"
	"go/parser"
	"go/printer"
	"go/token"
	"go/types"
	"os"
	"path/filepath"
	"sort"
	"strings"
)

type stub struct{ known map[string]*types.Package }

func (s stub) Import(path string) (*types.Package, error) {
	if p, ok := s.known[path]; ok {
		return p, nil
	}
	name := path[strings.LastIndex(path, "/")+1:]
	p := types.NewPackage(path, name)
	p.MarkComplete()
	return p, nil
}

func q(s string) string { return `"` + strings.ReplaceAll(s, `"`, `""`) + `"` }
func b(x bool) string {
	if x {
		return "true"
	}
	return "false"
}
func strs(l []string) string {
	o := []string{}
	for _, s := range l {
		o = append(o, q(s))
	}
	return "[" + strings.Join(o, "; ") + "]"
}

type acq struct {
	lock, mode, rel string
}

type unit struct {
	name, parent string
	pos, end     token.Pos
	params       []string
	made         []string
	acqs         []*acq
	events       []string
	seenExit     bool
	held         []string
	count        map[string]int
}

// one package under analysis
type analyser struct {
	fset  *token.FileSet
	info  *types.Info
	pkg   string
	local map[string]bool
	g     *global
}

// shared between the two packages
type global struct {
	units    []*unit
	decls    map[string]*ast.FuncDecl // unit name -> declaration
	byMethod map[string][]string      // bare function / method name -> unit names
	closures map[types.Object]*unit   // variable holding a function literal -> its unit
}

func named(t types.Type) string {
	for {
		switch v := t.(type) {
		case *types.Pointer:
			t = v.Elem()
			continue
		case *types.Named:
			return v.Obj().Name()
		}
		return ""
	}
}

func (a *analyser) declName(fd *ast.FuncDecl) string {
	name := a.pkg + "." + fd.Name.Name
	if fd.Recv != nil && len(fd.Recv.List) == 1 {
		if t := a.info.TypeOf(fd.Recv.List[0].Type); t != nil && named(t) != "" {
			name = named(t) + "." + fd.Name.Name
		} else {
			// syntactic fallback: *T or T
			e := fd.Recv.List[0].Type
			if s, ok := e.(*ast.StarExpr); ok {
				e = s.X
			}
			if id, ok := e.(*ast.Ident); ok {
				name = id.Name + "." + fd.Name.Name
			}
		}
	}
	return name
}

func (a *analyser) text(n ast.Node) string {
	var buf bytes.Buffer
	printer.Fprint(&buf, a.fset, n)
	s := strings.Join(strings.Fields(buf.String()), " ")
	if len(s) > 70 {
		s = s[:70]
	}
	return s
}

func (a *analyser) isChan(e ast.Expr) bool {
	if t := a.info.TypeOf(e); t != nil {
		_, ok := t.Underlying().(*types.Chan)
		return ok
	}
	return false
}

// declaring unit of a position: the innermost unit whose source range contains it
func (g *global) unitAt(p token.Pos) *unit {
	var best *unit
	for _, u := range g.units {
		if u.pos <= p && p < u.end && (best == nil || (u.end-u.pos) < (best.end-best.pos)) {
			best = u
		}
	}
	return best
}

// chanName names a channel expression: "Unit/var" for a variable, "?text" otherwise.
func (a *analyser) chanName(e ast.Expr) string {
	for {
		p, ok := e.(*ast.ParenExpr)
		if !ok {
			break
		}
		e = p.X
	}
	if id, ok := e.(*ast.Ident); ok {
		obj := a.info.Uses[id]
		if obj == nil {
			obj = a.info.Defs[id]
		}
		if v, ok := obj.(*types.Var); ok {
			if u := a.g.unitAt(v.Pos()); u != nil {
				return u.name + "/" + v.Name()
			}
			return a.pkg + "/" + v.Name()
		}
	}
	return "?" + a.text(e)
}

type ctx struct {
	loop, cond bool
	guard      string
	next       string // what follows the enclosing block
}

type walker struct {
	a *analyser
	u *unit
}

func classify(s ast.Stmt) string {
	switch v := s.(type) {
	case *ast.ReturnStmt:
		return "NReturn"
	case *ast.BranchStmt:
		switch v.Tok {
		case token.CONTINUE:
			return "NContinue"
		case token.BREAK:
			return "NBreak"
		}
	}
	return "NOther"
}

func (w *walker) newUnit(kind string, lit *ast.FuncLit) *unit {
	name := w.u.name + "$" + kind
	if kind == "go" || kind == "defer" || kind == "lit" {
		w.u.count[kind]++
		name = fmt.Sprintf("%s$%s%d", w.u.name, kind, w.u.count[kind])
	}
	u := &unit{name: name, parent: w.u.name, pos: lit.Pos(), end: lit.End(), count: map[string]int{}}
	w.a.g.units = append(w.a.g.units, u)
	for _, f := range lit.Type.Params.List {
		if _, ok := f.Type.(*ast.ChanType); ok || w.a.isChan(f.Type) {
			for _, n := range f.Names {
				u.params = append(u.params, u.name+"/"+n.Name)
			}
		}
	}
	(&walker{a: w.a, u: u}).block(lit.Body.List, ctx{next: "NEndFn"})
	return u
}

func (w *walker) emitOp(dir string, ch ast.Expr, sel string, c ctx, deferred bool, next string) {
	w.u.events = append(w.u.events, fmt.Sprintf("EOp (mk_op %s %s %s %s %s %s %s %s %s)", dir, q(w.a.chanName(ch)), sel,
		b(c.loop), b(c.cond), b(deferred), b(!w.u.seenExit), next, strs(w.u.held)))
}

func (w *walker) emitCall(callee, kind string, binds []string, c ctx, next string) {
	w.u.events = append(w.u.events, fmt.Sprintf("ECall (mk_call %s %s [%s] %s %s %s %s %s %s)", q(callee), kind, strings.Join(binds, "; "),
		q(c.guard), b(c.loop), b(c.cond), b(!w.u.seenExit), next, strs(w.u.held)))
}

// lockOp handles X.f.Lock() / RLock / Unlock / RUnlock on a mutex field of a struct of the two packages.
func (w *walker) lockOp(call *ast.CallExpr, deferred bool) bool {
	sel, ok := call.Fun.(*ast.SelectorExpr)
	if !ok {
		return false
	}
	op := sel.Sel.Name
	if op != "Lock" && op != "RLock" && op != "Unlock" && op != "RUnlock" {
		return false
	}
	inner, ok := sel.X.(*ast.SelectorExpr)
	if !ok {
		return false
	}
	name := ""
	if s, ok := w.a.info.Selections[inner]; ok && s.Kind() == types.FieldVal {
		if v, ok := s.Obj().(*types.Var); ok && v.Pkg() != nil && w.a.local[v.Pkg().Path()] {
			name = named(s.Recv()) + "." + v.Name()
		}
	}
	if name == "" {
		return false
	}
	switch op {
	case "Lock", "RLock":
		mode := "LW"
		if op == "RLock" {
			mode = "LR"
		}
		w.u.acqs = append(w.u.acqs, &acq{name, mode, "RelNone"})
		w.u.held = append(w.u.held, name)
	default:
		for i := len(w.u.acqs) - 1; i >= 0; i-- {
			if w.u.acqs[i].lock == name && w.u.acqs[i].rel == "RelNone" {
				if deferred {
					w.u.acqs[i].rel = "RelDefer"
				} else {
					w.u.acqs[i].rel = "RelLater"
				}
				break
			}
		}
		if !deferred { // a deferred unlock keeps the lock to the end of the unit
			for i := len(w.u.held) - 1; i >= 0; i-- {
				if w.u.held[i] == name {
					w.u.held = append(w.u.held[:i:i], w.u.held[i+1:]...)
					break
				}
			}
		}
	}
	return true
}

func (w *walker) isBuiltin(id *ast.Ident, name string) bool {
	if id.Name != name {
		return false
	}
	if o, ok := w.a.info.Uses[id]; ok {
		_, isb := o.(*types.Builtin)
		return isb
	}
	return true
}

// callee resolves a call to a unit name and the declaration of its parameters.
func (w *walker) callee(call *ast.CallExpr) (string, *ast.FieldList) {
	a := w.a
	switch f := call.Fun.(type) {
	case *ast.Ident:
		if o := a.info.Uses[f]; o != nil {
			if u, ok := a.g.closures[o]; ok {
				return u.name, nil
			}
			if fn, ok := o.(*types.Func); ok && fn.Pkg() != nil && a.local[fn.Pkg().Path()] {
				n := fn.Pkg().Name() + "." + fn.Name()
				if d, ok := a.g.decls[n]; ok {
					return n, d.Type.Params
				}
			}
		}
	case *ast.SelectorExpr:
		if s, ok := a.info.Selections[f]; ok && s.Kind() == types.MethodVal {
			if fn, ok := s.Obj().(*types.Func); ok && fn.Pkg() != nil && a.local[fn.Pkg().Path()] {
				n := named(s.Recv()) + "." + fn.Name()
				if d, ok := a.g.decls[n]; ok {
					return n, d.Type.Params
				}
			}
		}
		if id, ok := f.X.(*ast.Ident); ok {
			if pn, ok := a.info.Uses[id].(*types.PkgName); ok && a.local[pn.Imported().Path()] {
				n := pn.Imported().Name() + "." + f.Sel.Name
				if d, ok := a.g.decls[n]; ok {
					return n, d.Type.Params
				}
			}
		}
		// types could not resolve the receiver: a method name declared once in the two packages
		if _, ok := a.info.Selections[f]; !ok {
			if c := a.g.byMethod[f.Sel.Name]; len(c) == 1 {
				return c[0], a.g.decls[c[0]].Type.Params
			}
		}
	}
	return "", nil
}

// call records a call (plain, go, defer) and the operations inside its operands.
func (w *walker) call(call *ast.CallExpr, kind string, c ctx, next string) {
	if w.lockOp(call, kind == "KDefer") {
		return
	}
	if id, ok := call.Fun.(*ast.Ident); ok && w.isBuiltin(id, "close") && len(call.Args) == 1 {
		w.emitOp("Close", call.Args[0], "None", c, kind == "KDefer", next)
		return
	}
	for _, x := range call.Args {
		if _, ok := x.(*ast.FuncLit); !ok {
			w.expr(x, c, next)
		}
	}
	if fl, ok := call.Fun.(*ast.FuncLit); ok {
		k := "lit"
		if kind == "KGo" {
			k = "go"
		} else if kind == "KDefer" {
			k = "defer"
		}
		u := w.newUnit(k, fl)
		w.emitCall(u.name, kind, nil, c, next)
	} else {
		if sel, ok := call.Fun.(*ast.SelectorExpr); ok {
			w.expr(sel.X, c, next)
		}
		name, params := w.callee(call)
		binds := []string{}
		if params != nil {
			i := 0
			for _, f := range params.List {
				names := f.Names
				if len(names) == 0 {
					names = []*ast.Ident{nil}
				}
				for _, n := range names {
					if i < len(call.Args) && n != nil && n.Name != "_" {
						_, syn := f.Type.(*ast.ChanType)
						if syn || w.a.isChan(call.Args[i]) {
							binds = append(binds, fmt.Sprintf("(%s, %s)", q(name+"/"+n.Name), q(w.a.chanName(call.Args[i]))))
						}
					}
					i++
				}
			}
		}
		if name != "" && (len(binds) > 0 || params == nil || kind != "KCall") {
			w.emitCall(name, kind, binds, c, next)
		}
	}
	// function literals handed over as arguments: may be called by the callee
	for _, x := range call.Args {
		if fl, ok := x.(*ast.FuncLit); ok {
			u := w.newUnit("lit", fl)
			w.emitCall(u.name, "KCall", nil, c, next)
		}
	}
}

// expr records the channel operations and calls inside an expression.
func (w *walker) expr(e ast.Expr, c ctx, next string) {
	if e == nil {
		return
	}
	ast.Inspect(e, func(n ast.Node) bool {
		switch v := n.(type) {
		case *ast.CallExpr:
			w.call(v, "KCall", c, next)
			return false
		case *ast.FuncLit:
			u := w.newUnit("lit", v)
			w.emitCall(u.name, "KCall", nil, c, next)
			return false
		case *ast.UnaryExpr:
			if v.Op == token.ARROW {
				w.expr(v.X, c, next)
				w.emitOp("Recv", v.X, "None", c, false, next)
				return false
			}
		}
		return true
	})
}

func (w *walker) block(list []ast.Stmt, c ctx) {
	for i, s := range list {
		next := c.next
		if i+1 < len(list) {
			next = classify(list[i+1])
		}
		prev := ast.Stmt(nil)
		if i > 0 {
			prev = list[i-1]
		}
		w.stmt(s, c, next, prev)
	}
}

// made records x := make(chan T[, n]) / var x = make(chan T) / var x chan T.
func (w *walker) made(lhs ast.Expr, rhs ast.Expr) {
	id, ok := lhs.(*ast.Ident)
	if !ok || id.Name == "_" {
		return
	}
	call, ok := rhs.(*ast.CallExpr)
	if !ok {
		return
	}
	f, ok := call.Fun.(*ast.Ident)
	if !ok || !w.isBuiltin(f, "make") || len(call.Args) == 0 {
		return
	}
	if _, ok := call.Args[0].(*ast.ChanType); !ok && !w.a.isChan(call.Args[0]) {
		return
	}
	w.u.made = append(w.u.made, fmt.Sprintf("(%s, %s)", q(w.a.chanName(id)), b(len(call.Args) > 1)))
}

func (w *walker) prevText(prev ast.Stmt) string {
	switch p := prev.(type) {
	case *ast.ExprStmt:
		if call, ok := p.X.(*ast.CallExpr); ok {
			if n, _ := w.callee(call); n != "" {
				return "call " + n
			}
		}
	case *ast.SendStmt:
		return "send " + w.a.chanName(p.Chan)
	}
	return ""
}

// comm describes the communication of a select clause.
func (w *walker) comm(cc *ast.CommClause) (dir string, ch ast.Expr, val ast.Expr) {
	switch s := cc.Comm.(type) {
	case *ast.SendStmt:
		return "Send", s.Chan, s.Value
	case *ast.ExprStmt:
		if u, ok := s.X.(*ast.UnaryExpr); ok && u.Op == token.ARROW {
			return "Recv", u.X, nil
		}
	case *ast.AssignStmt:
		if len(s.Rhs) == 1 {
			if u, ok := s.Rhs[0].(*ast.UnaryExpr); ok && u.Op == token.ARROW {
				return "Recv", u.X, nil
			}
		}
	}
	return "", nil, nil
}

func (w *walker) stmt(s ast.Stmt, c ctx, next string, prev ast.Stmt) {
	switch v := s.(type) {
	case *ast.ExprStmt:
		w.expr(v.X, c, next)
	case *ast.SendStmt:
		w.expr(v.Value, c, next)
		w.expr(v.Chan, c, next)
		w.emitOp("Send", v.Chan, "None", c, false, next)
	case *ast.AssignStmt:
		for i, r := range v.Rhs {
			if fl, ok := r.(*ast.FuncLit); ok && len(v.Lhs) == len(v.Rhs) {
				if id, ok := v.Lhs[i].(*ast.Ident); ok && id.Name != "_" {
					u := w.newUnit(id.Name, fl)
					obj := w.a.info.Defs[id]
					if obj == nil {
						obj = w.a.info.Uses[id]
					}
					if obj != nil {
						w.a.g.closures[obj] = u
					}
					continue
				}
			}
			w.expr(r, c, next)
			if len(v.Lhs) == len(v.Rhs) {
				w.made(v.Lhs[i], r)
			}
		}
		for _, l := range v.Lhs {
			if _, ok := l.(*ast.Ident); !ok {
				w.expr(l, c, next)
			}
		}
	case *ast.DeclStmt:
		if gd, ok := v.Decl.(*ast.GenDecl); ok {
			for _, sp := range gd.Specs {
				if vs, ok := sp.(*ast.ValueSpec); ok {
					for i, x := range vs.Values {
						w.expr(x, c, next)
						if i < len(vs.Names) {
							w.made(vs.Names[i], x)
						}
					}
				}
			}
		}
	case *ast.IncDecStmt:
		w.expr(v.X, c, next)
	case *ast.DeferStmt:
		w.call(v.Call, "KDefer", c, next)
	case *ast.GoStmt:
		w.call(v.Call, "KGo", c, next)
		w.u.seenExit = true
	case *ast.ReturnStmt:
		for _, r := range v.Results {
			w.expr(r, c, "NReturn")
		}
		w.u.events = append(w.u.events, fmt.Sprintf("ERet (mk_ret %s %s %s)", q(w.prevText(prev)), q(c.guard), b(c.loop)))
		w.u.seenExit = true
	case *ast.IfStmt:
		if v.Init != nil {
			w.stmt(v.Init, c, "NOther", nil)
		}
		w.expr(v.Cond, c, "NOther")
		w.block(v.Body.List, ctx{loop: c.loop, cond: true, guard: "if " + w.a.text(v.Cond), next: next})
		switch e := v.Else.(type) {
		case *ast.BlockStmt:
			w.block(e.List, ctx{loop: c.loop, cond: true, guard: "else", next: next})
		case *ast.IfStmt:
			w.stmt(e, ctx{loop: c.loop, cond: true, guard: "else", next: c.next}, next, nil)
		}
	case *ast.BlockStmt:
		w.block(v.List, ctx{loop: c.loop, cond: c.cond, guard: c.guard, next: next})
	case *ast.ForStmt:
		if v.Init != nil {
			w.stmt(v.Init, c, "NOther", nil)
		}
		lc := ctx{loop: true, cond: c.cond, guard: c.guard, next: "NLoop"}
		w.expr(v.Cond, lc, "NOther")
		w.block(v.Body.List, lc)
		if v.Post != nil {
			w.stmt(v.Post, lc, "NLoop", nil)
		}
	case *ast.RangeStmt:
		lc := ctx{loop: true, cond: c.cond, guard: c.guard, next: "NLoop"}
		w.expr(v.X, c, "NOther")
		if w.a.isChan(v.X) {
			w.emitOp("Range", v.X, "None", lc, false, "NOther")
		}
		w.block(v.Body.List, lc)
	case *ast.SwitchStmt:
		if v.Init != nil {
			w.stmt(v.Init, c, "NOther", nil)
		}
		w.expr(v.Tag, c, "NOther")
		w.clauses(v.Body, c, next)
	case *ast.TypeSwitchStmt:
		if v.Init != nil {
			w.stmt(v.Init, c, "NOther", nil)
		}
		w.stmt(v.Assign, c, "NOther", nil)
		w.clauses(v.Body, c, next)
	case *ast.SelectStmt:
		type cm struct {
			dir string
			ch  ast.Expr
		}
		var comms []cm
		hasDefault := false
		for _, x := range v.Body.List {
			cc := x.(*ast.CommClause)
			if cc.Comm == nil {
				hasDefault = true
				comms = append(comms, cm{})
				continue
			}
			d, ch, _ := w.comm(cc)
			comms = append(comms, cm{d, ch})
		}
		for i, x := range v.Body.List {
			cc := x.(*ast.CommClause)
			cnext := next
			if len(cc.Body) > 0 {
				cnext = classify(cc.Body[0])
			}
			if cc.Comm != nil {
				d, ch, val := w.comm(cc)
				if d == "" { // not a form we understand: record what is inside as plain operations
					w.stmt(cc.Comm, ctx{loop: c.loop, cond: true, guard: "comm", next: cnext}, cnext, nil)
				} else {
					if val != nil {
						w.expr(val, c, cnext)
					}
					others := []string{}
					for j, o := range comms {
						if j != i && o.dir != "" {
							others = append(others, fmt.Sprintf("(%s, %s)", o.dir, q(w.a.chanName(o.ch))))
						}
					}
					w.emitOp(d, ch, fmt.Sprintf("(Some ([%s], %s))", strings.Join(others, "; "), b(hasDefault)), c, false, cnext)
				}
			}
			g := "comm default"
			if comms[i].dir != "" {
				g = "comm " + strings.ToLower(comms[i].dir) + " " + w.a.chanName(comms[i].ch)
			} else if cc.Comm != nil {
				g = "comm ?"
			}
			w.block(cc.Body, ctx{loop: c.loop, cond: true, guard: g, next: next})
		}
	case *ast.LabeledStmt:
		w.stmt(v.Stmt, c, next, prev)
	}
}

func (w *walker) clauses(body *ast.BlockStmt, c ctx, next string) {
	for _, x := range body.List {
		cc, ok := x.(*ast.CaseClause)
		if !ok {
			continue
		}
		g := "case default"
		if len(cc.List) > 0 {
			t := []string{}
			for _, e := range cc.List {
				w.expr(e, c, "NOther")
				t = append(t, w.a.text(e))
			}
			g = "case " + strings.Join(t, ", ")
			if len(g) > 70 {
				g = g[:70]
			}
		}
		w.block(cc.Body, ctx{loop: c.loop, cond: true, guard: g, next: next})
	}
}

func (a *analyser) file(f *ast.File) {
	for _, d := range f.Decls {
		fd, ok := d.(*ast.FuncDecl)
		if !ok || fd.Body == nil {
			continue
		}
		u := &unit{name: a.declName(fd), pos: fd.Pos(), end: fd.End(), count: map[string]int{}}
		a.g.units = append(a.g.units, u)
		for _, f := range fd.Type.Params.List {
			if _, ok := f.Type.(*ast.ChanType); ok || a.isChan(f.Type) {
				for _, n := range f.Names {
					u.params = append(u.params, u.name+"/"+n.Name)
				}
			}
		}
		(&walker{a: a, u: u}).block(fd.Body.List, ctx{next: "NEndFn"})
	}
}

func check(fset *token.FileSet, dir, path string, imp stub) (*types.Package, *types.Info, []*ast.File) {
	pkgs, err := parser.ParseDir(fset, dir, func(fi os.FileInfo) bool {
		return !strings.HasSuffix(fi.Name(), "_test.go") && fi.Name() != "verif_hooks.go"
	}, 0)
	if err != nil {
		fmt.Fprintln(os.Stderr, err)
		os.Exit(2)
	}
	var files []*ast.File
	names := []string{}
	for _, p := range pkgs {
		for n := range p.Files {
			names = append(names, n)
		}
	}
	sort.Strings(names)
	for _, p := range pkgs {
		for _, n := range names {
			if f, ok := p.Files[n]; ok {
				files = append(files, f)
			}
		}
	}
	if len(files) == 0 {
		fmt.Fprintln(os.Stderr, "no Go source in "+dir)
		os.Exit(2)
	}
	info := &types.Info{Selections: map[*ast.SelectorExpr]*types.Selection{}, Uses: map[*ast.Ident]types.Object{},
		Types: map[ast.Expr]types.TypeAndValue{}, Defs: map[*ast.Ident]types.Object{}}
	conf := types.Config{Importer: imp, Error: func(error) {}}
	pkg, _ := conf.Check(path, fset, files, info)
	return pkg, info, files
}

func main() {
	repo := flag.String("repo", "/repo", "repository root (its rib/ and server/ directories are read)")
	ribDir := flag.String("rib", "", "directory of package rib (default <repo>/rib)")
	srvDir := flag.String("server", "", "directory of package server (default <repo>/server)")
	flag.Parse()
	if *ribDir == "" {
		*ribDir = filepath.Join(*repo, "rib")
	}
	if *srvDir == "" {
		*srvDir = filepath.Join(*repo, "server")
	}
	fset := token.NewFileSet()
	imp := stub{known: map[string]*types.Package{}}
	ribPath, srvPath := "github.com/openconfig/gribigo/rib", "github.com/openconfig/gribigo/server"
	local := map[string]bool{ribPath: true, srvPath: true}
	ribPkg, ribInfo, ribFiles := check(fset, *ribDir, ribPath, imp)
	imp.known[ribPath] = ribPkg
	_, srvInfo, srvFiles := check(fset, *srvDir, srvPath, imp)
	g := &global{decls: map[string]*ast.FuncDecl{}, byMethod: map[string][]string{}, closures: map[types.Object]*unit{}}
	type pk struct {
		pkg   string
		info  *types.Info
		files []*ast.File
	}
	pks := []pk{{"rib", ribInfo, ribFiles}, {"server", srvInfo, srvFiles}}
	// declarations first: a call may precede the declaration of its callee
	for _, x := range pks {
		a := &analyser{fset: fset, info: x.info, pkg: x.pkg, local: local, g: g}
		for _, f := range x.files {
			for _, d := range f.Decls {
				if fd, ok := d.(*ast.FuncDecl); ok && fd.Body != nil {
					n := a.declName(fd)
					g.decls[n] = fd
					g.byMethod[fd.Name.Name] = append(g.byMethod[fd.Name.Name], n)
				}
			}
		}
	}
	for _, x := range pks {
		a := &analyser{fset: fset, info: x.info, pkg: x.pkg, local: local, g: g}
		for _, f := range x.files {
			a.file(f)
		}
	}
	// a function literal is listed only if it, or a literal inside it, touches a channel or is a goroutine /
	// deferred body / closure of a unit that does
	touches := map[string]bool{}
	for _, u := range g.units {
		if len(u.made)+len(u.params) > 0 {
			touches[u.name] = true
		}
		for _, e := range u.events {
			if strings.HasPrefix(e, "EOp") || strings.Contains(e, "[(") {
				touches[u.name] = true
			}
		}
	}
	for changed := true; changed; {
		changed = false
		for _, u := range g.units {
			if touches[u.name] && u.parent != "" && !touches[u.parent] {
				touches[u.parent] = true
				changed = true
			}
		}
	}
	var out strings.Builder
	out.WriteString("(* GENERATED by /verif/tools/gen_chantable from " + *ribDir + " and " + *srvDir + " on every check run. Do not edit. *)\n")
	out.WriteString("From Coq Require Import List String.\nFrom GV.Conc Require Import ChanDefs.\nImport ListNotations.\nOpen Scope string_scope.\n\n")
	out.WriteString("Definition chan_table : list unit_entry := [\n")
	rows := []string{}
	for _, u := range g.units {
		if !touches[u.name] {
			continue
		}
		acqs := []string{}
		for _, x := range u.acqs {
			acqs = append(acqs, fmt.Sprintf("(%s, %s, %s)", q(x.lock), x.mode, x.rel))
		}
		rows = append(rows, fmt.Sprintf(" mk_unit %s %s %s\n  [%s]\n  [%s]\n  [%s]", q(u.name), q(u.parent), strs(u.params),
			strings.Join(u.made, "; "), strings.Join(acqs, "; "), strings.Join(u.events, ";\n   ")))
	}
	out.WriteString(strings.Join(rows, ";\n"))
	out.WriteString("\n].\n")
	fmt.Print(out.String())
}
