// gen_codectable prints the codec field inventory of the five gRIBI AFT entry messages
// (Ipv4Entry, Ipv6Entry, LabelEntry, NextHopGroup, NextHop and everything nested in them) as a
// Gallina list: for every field its YANG schema path (the yext.schemapath annotation, first
// alternative) and its protobuf wrapper kind.  The source is the protobuf definition that
// /repo's go.mod selects (gribi_aft.proto of github.com/openconfig/gribi in the module cache);
// the C07 harness prints the same inventory by reflection over the linked descriptors and the
// two are compared by coqc on every run.  Standard library only (this module has no dependencies).
package main

import (
	"bufio"
	"flag"
	"fmt"
	"go/ast"
	"go/parser"
	"go/token"
	"os"
	"os/exec"
	"path/filepath"
	"regexp"
	"sort"
	"strings"
)

type field struct {
	repeated bool
	typ      string
	name     string
	opts     string
	oneof    bool
}

type message struct {
	full   string
	fields []field
}

var (
	msgs    = map[string]*message{}
	fieldRe = regexp.MustCompile(`^\s*(repeated\s+)?([\w.]+)\s+(\w+)\s*=\s*\d+\s*(?:\[(.*)\])?\s*;`)
	msgRe   = regexp.MustCompile(`^\s*message\s+(\w+)\s*\{`)
	oneofRe = regexp.MustCompile(`^\s*oneof\s+\w+\s*\{`)
	pathRe  = regexp.MustCompile(`\(yext\.schemapath\)\s*=\s*"([^"]*)"`)
)

func parse(path string) error {
	f, err := os.Open(path)
	if err != nil {
		return err
	}
	defer f.Close()
	type frame struct {
		m     *message
		oneof bool
	}
	var stack []frame
	sc := bufio.NewScanner(f)
	sc.Buffer(make([]byte, 1<<20), 1<<20)
	for sc.Scan() {
		line := sc.Text()
		if i := strings.Index(line, "//"); i >= 0 && !strings.Contains(line[:i], `"`) {
			line = line[:i]
		}
		switch {
		case msgRe.MatchString(line):
			name := msgRe.FindStringSubmatch(line)[1]
			full := name
			for i := len(stack) - 1; i >= 0; i-- {
				if !stack[i].oneof {
					full = stack[i].m.full + "." + name
					break
				}
			}
			m := &message{full: full}
			msgs[full] = m
			stack = append(stack, frame{m: m})
		case oneofRe.MatchString(line):
			stack = append(stack, frame{m: stack[len(stack)-1].m, oneof: true})
		case strings.TrimSpace(line) == "}":
			if len(stack) == 0 {
				return fmt.Errorf("unbalanced braces")
			}
			stack = stack[:len(stack)-1]
		case fieldRe.MatchString(line) && len(stack) > 0:
			g := fieldRe.FindStringSubmatch(line)
			top := stack[len(stack)-1]
			top.m.fields = append(top.m.fields, field{repeated: g[1] != "", typ: g[2], name: g[3], opts: g[4], oneof: top.oneof})
		}
	}
	return sc.Err()
}

// resolve finds the message a type name denotes from inside message scope.
func resolve(scope, typ string) *message {
	for s := scope; ; {
		if m, ok := msgs[s+"."+typ]; ok {
			return m
		}
		i := strings.LastIndex(s, ".")
		if i < 0 {
			break
		}
		s = s[:i]
	}
	if m, ok := msgs[typ]; ok {
		return m
	}
	return nil
}

type row struct{ path, kind string }

var rows []row

func firstPath(opts string) string {
	g := pathRe.FindStringSubmatch(opts)
	if g == nil {
		return ""
	}
	return strings.Split(g[1], "|")[0]
}

func walk(m *message, inKey bool) {
	for _, f := range m.fields {
		p := firstPath(f.opts)
		switch {
		case inKey && !strings.HasPrefix(f.typ, "ywrapper.") && resolve(m.full, f.typ) == nil:
			rows = append(rows, row{p, "KKey"}) // scalar (or enum) member of an XxxKey message
		case strings.HasPrefix(f.typ, "ywrapper."):
			k := map[string]string{"UintValue": "KUint", "StringValue": "KString", "BytesValue": "KBytes", "BoolValue": "KBool",
				"IntValue": "KInt", "Decimal64Value": "KDecimal64"}[strings.TrimPrefix(f.typ, "ywrapper.")]
			if k == "" {
				k = "KOther"
			}
			if f.repeated {
				k = "KLeafList"
			}
			rows = append(rows, row{p, k})
		case strings.Contains(f.typ, ".enums."):
			rows = append(rows, row{p, "KEnum"})
		case f.repeated && strings.Contains(f.opts, "(yext.leaflistunion) = true"):
			rows = append(rows, row{p, "KLeafListUnion"})
		case f.repeated && strings.Contains(f.opts, "(yext.leaflist) = true"):
			rows = append(rows, row{p, "KLeafList"})
		default:
			sub := resolve(m.full, f.typ)
			switch {
			case sub == nil && f.oneof:
				rows = append(rows, row{p, "KScalarUnion"})
			case sub == nil:
				rows = append(rows, row{p, "KScalar"})
			case f.repeated:
				rows = append(rows, row{p, "KKeyedList"})
				walk(sub, true)
			case inKey:
				walk(sub, false) // the member message of a list element: no row of its own
			default:
				rows = append(rows, row{p, "KContainer"})
				walk(sub, false)
			}
		}
	}
}

// explicitCopies lists what the ConcreteXXXProto functions of rib/rib.go put into the protobuf by hand,
// next to protoFromGoStruct: assignments to a field of a local variable ("ConcreteNextHopProto.PopTopLabel")
// and the keyed fields of the returned composite literal ("ConcreteNextHopProto.Index").
func explicitCopies(file string) ([]string, error) {
	fset := token.NewFileSet()
	f, err := parser.ParseFile(fset, file, nil, 0)
	if err != nil {
		return nil, err
	}
	out := []string{}
	for _, d := range f.Decls {
		fn, ok := d.(*ast.FuncDecl)
		if !ok || fn.Recv != nil || fn.Body == nil || !strings.HasPrefix(fn.Name.Name, "Concrete") || !strings.HasSuffix(fn.Name.Name, "Proto") {
			continue
		}
		ast.Inspect(fn.Body, func(n ast.Node) bool {
			switch v := n.(type) {
			case *ast.AssignStmt:
				for _, l := range v.Lhs {
					if sel, ok := l.(*ast.SelectorExpr); ok {
						if _, ok := sel.X.(*ast.Ident); ok {
							out = append(out, fn.Name.Name+"."+sel.Sel.Name)
						}
					}
				}
			case *ast.ReturnStmt:
				for _, r := range v.Results {
					u, ok := r.(*ast.UnaryExpr)
					if !ok {
						continue
					}
					cl, ok := u.X.(*ast.CompositeLit)
					if !ok {
						continue
					}
					for _, e := range cl.Elts {
						if kv, ok := e.(*ast.KeyValueExpr); ok {
							if id, ok := kv.Key.(*ast.Ident); ok {
								out = append(out, fn.Name.Name+"."+id.Name)
							}
						}
					}
				}
			}
			return true
		})
	}
	sort.Strings(out)
	return out, nil
}

func main() {
	repo := flag.String("repo", "/repo", "the gribigo tree whose go.mod selects the gribi version")
	proto := flag.String("proto", "", "gribi_aft.proto (default: located through go list -m)")
	flag.Parse()
	file := *proto
	if file == "" {
		cmd := exec.Command("go", "list", "-m", "-f", "{{.Dir}}", "github.com/openconfig/gribi")
		cmd.Dir = *repo
		cmd.Stderr = os.Stderr
		out, err := cmd.Output()
		if err != nil {
			fmt.Fprintln(os.Stderr, "gen_codectable: cannot locate github.com/openconfig/gribi:", err)
			os.Exit(1)
		}
		file = filepath.Join(strings.TrimSpace(string(out)), "v1/proto/gribi_aft/gribi_aft.proto")
	}
	if err := parse(file); err != nil {
		fmt.Fprintln(os.Stderr, "gen_codectable:", err)
		os.Exit(1)
	}
	for _, root := range []string{"Afts.Ipv4EntryKey", "Afts.Ipv6EntryKey", "Afts.LabelEntryKey", "Afts.NextHopGroupKey", "Afts.NextHopKey"} {
		m := msgs[root]
		if m == nil {
			fmt.Fprintln(os.Stderr, "gen_codectable: message", root, "not found in", file)
			os.Exit(1)
		}
		walk(m, true)
	}
	sort.Slice(rows, func(i, j int) bool {
		if rows[i].path != rows[j].path {
			return rows[i].path < rows[j].path
		}
		return rows[i].kind < rows[j].kind
	})
	uniq := rows[:0]
	for i, r := range rows {
		if i == 0 || r != rows[i-1] {
			uniq = append(uniq, r)
		}
	}
	rows = uniq
	fmt.Println("(* generated by tools/gen_codectable from gribi_aft.proto (the version /repo's go.mod selects); do not edit.")
	fmt.Println("   One row per field reachable from the five AFT entry messages: schema path, protobuf wrapper kind. *)")
	fmt.Println("From Coq Require Import List String.")
	fmt.Println("From GV.Codec Require Import Fields.")
	fmt.Println("Import ListNotations.")
	fmt.Println("Open Scope string_scope.")
	fmt.Println("Definition codec_table : list row := [")
	for i, r := range rows {
		sep := ";"
		if i == len(rows)-1 {
			sep = ""
		}
		fmt.Printf("  (%q, %s)%s\n", r.path, r.kind, sep)
	}
	fmt.Println("].")
	copies, err := explicitCopies(filepath.Join(*repo, "rib/rib.go"))
	if err != nil {
		fmt.Fprintln(os.Stderr, "gen_codectable:", err)
		os.Exit(1)
	}
	fmt.Println("(* what the ConcreteXXXProto functions of rib/rib.go copy by hand (assigned fields, keys of the returned literal) *)")
	fmt.Println("Definition explicit_copies_src : list string := [")
	for i, c := range copies {
		sep := ";"
		if i == len(copies)-1 {
			sep = ""
		}
		fmt.Printf("  %q%s\n", c, sep)
	}
	fmt.Println("].")
}
