#!/usr/bin/env python3
"""tools/confirm_seed.py /tmp/seed-out/Cnn-k : confirm a seeded change in a scratch worktree of /repo
(demo passes without it; with it everything compiles, the existing suite passes, the demo fails) and, if
confirmed, store it under /verif/seeded/Cnn-k/."""
import json, os, re, shutil, subprocess, sys, tempfile

src = sys.argv[1].rstrip("/")
name = os.path.basename(src)
env = dict(os.environ, GOFLAGS="-mod=mod", GOPROXY="off")


def sh(cmd, cwd, timeout=1500):
    p = subprocess.run(cmd, cwd=cwd, shell=True, env=env, stdout=subprocess.PIPE, stderr=subprocess.STDOUT, text=True, timeout=timeout)
    return p.returncode, p.stdout


meta = json.load(open(os.path.join(src, "meta.json")))
patch = open(os.path.join(src, "patch.diff")).read()
# drop hunks that touch the verification hook files (the seeding worktrees lacked them)
parts = re.split(r"(?m)^(?=diff --git )", patch)
patch = "".join(p for p in parts if "verif_hooks.go" not in p.split("\n")[0])
demo = open(os.path.join(src, "demo_test.go")).read()
m = re.match(r"//\s*dest:\s*(\S+)", demo)
if not m:
    print(name, "REJECT: demo has no dest line"); sys.exit(1)
dest = m.group(1)
wt = tempfile.mkdtemp(prefix="confirm-", dir="/tmp")
os.rmdir(wt)
try:
    rc, out = sh("git -C /repo worktree add -q --detach %s HEAD" % wt, "/")
    if rc: print(name, "REJECT: worktree", out); sys.exit(1)
    os.makedirs(os.path.dirname(os.path.join(wt, dest)), exist_ok=True)
    open(os.path.join(wt, dest), "w").write(demo)
    pkg = "./" + os.path.dirname(dest)
    run = meta.get("demo_cmd") or ("go test -vet=off -count=1 %s" % pkg)
    rc, out = sh("timeout 600 " + run, wt)
    if rc != 0:
        print(name, "REJECT: demo fails WITHOUT the change\n", out[-1500:]); sys.exit(1)
    open(os.path.join(wt, "p.diff"), "w").write(patch)
    rc, out = sh("git apply p.diff", wt)
    if rc: print(name, "REJECT: patch does not apply", out); sys.exit(1)
    rc, out = sh("go build ./... && go vet -tags verif ./rib ./server >/dev/null 2>&1; go build -tags verif ./...", wt)
    if rc: print(name, "REJECT: does not compile", out[-1500:]); sys.exit(1)
    rc, out = sh("timeout 600 " + run, wt)
    if rc == 0:
        print(name, "REJECT: demo passes WITH the change"); sys.exit(1)
    demo_fail = out[-600:]
    os.remove(os.path.join(wt, dest))
    rc, out = sh("timeout 1400 go test -vet=off -count=1 ./... 2>&1 | grep '^FAIL\\|^---\\|^ok\\|panic'", wt)
    failed = sorted(set(re.findall(r"(?m)^FAIL\s+(\S+)", out)))
    if failed:
        # the client and compliance packages have timing-sensitive tests: retry the failing packages once
        pk = " ".join("./" + f.replace("github.com/openconfig/gribigo/", "") for f in failed)
        rc2, out2 = sh("timeout 1400 go test -vet=off -count=1 %s 2>&1 | grep '^FAIL\\|^---\\|^ok\\|panic'" % pk, wt)
        if re.search(r"(?m)^FAIL", out2):
            print(name, "REJECT: existing suite fails with the change (twice)\n", out2[-1500:]); sys.exit(1)
        meta.setdefault("notes", []).append("a timing-sensitive existing test failed once and passed on retry: " + ", ".join(failed))
    dst = os.path.join("/verif/seeded", name)
    os.makedirs(dst, exist_ok=True)
    open(os.path.join(dst, "patch.diff"), "w").write(patch)
    open(os.path.join(dst, "demo_test.go"), "w").write(demo)
    meta["confirmed"] = {"ran": ["demo without change: pass", "git apply + go build ./... (+ -tags verif): ok", "demo with change: FAIL", "go test -vet=off -count=1 ./... with change: all ok"],
                         "demo_failure_tail": demo_fail}
    json.dump(meta, open(os.path.join(dst, "meta.json"), "w"), indent=1)
    print(name, "CONFIRMED")
finally:
    subprocess.run("git -C /repo worktree remove --force %s" % wt, shell=True, stdout=subprocess.DEVNULL, stderr=subprocess.DEVNULL)
    shutil.rmtree(wt, ignore_errors=True)
