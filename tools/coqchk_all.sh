#!/bin/sh
# Re-check the compiled property files (and everything they depend on) with the independent checker and
# list the axioms they rely on.  Slow (minutes per file): thorough procedure only.
cd "$(dirname "$0")/../coq" || exit 2
mkdir -p ../work
for p in ${@:-C01 C02 C03 C04 C05 C06 C07 C08 C09 C10 C11 C12 C13 C14 C15 C16 C17 C18 C19}; do
  echo "== $p"
  timeout 3600 coqchk -silent -o -Q theories GV GV.Properties.$p 2>&1 | tail -12
done | tee ../work/coqchk.log
