#!/usr/bin/env python3
"""Writes /verif/MANIFEST.json from the table below (kept in one place so it stays valid)."""
import json, os
V = os.path.dirname(os.path.dirname(os.path.abspath(__file__)))
TB = "Coq 8.16.1 kernel + vm_compute (no native_compute); hand-written Gallina model tied to /repo by the correspondence harness (Go, build tag verif) and, where stated, by fragments regenerated from the Go source on every run (tools/gen_*); no axioms (Print Assumptions: closed under the global context)."
CHECKS = {
 "C05": dict(technique="Coq proof (theorems over the server election model + over isNewMaster regenerated from server.go) + model/implementation correspondence via vm_compute",
             text="Theorems for all histories/ids: regenerated isNewMaster = 128-bit order, reported id = running maximum, primary = latest not-lower announcer; model tied to /repo by differential runs over the boundary lattice and random multi-session scripts; model-free oracle recomputes the running maximum.",
             ref="DESIGN.md 4/C05", note=TB + " Each scripted message is atomic (interleavings of concurrent announcements: C11)."),
 "C01": dict(technique="Coq proof: refinement of the RIB model to a finite-map spec by induction over histories and cascades (any map order) + model/implementation correspondence via vm_compute",
             text="Theorems for all histories, keys, payloads, instances and cascade orders: installed tables = fold of the acknowledgement log (ADD/REPLACE replace wholly, DELETE removes exactly its key, FAILED/held leave no trace); RIB model tied to rib.go by differential histories (oks sequence, fails, held ids, final tables+counters); model-free oracle folds the implementation's own acks.",
             ref="DESIGN.md 4/C01", note=TB + " RIB-level calls are sequential; ygot schema validation is modelled by a validity bit / label range."),
 "C03": dict(technique="Coq proof: counter invariant RC by induction over histories and cascades (any map order), verdict theorems as corollaries + correspondence via vm_compute",
             text="Theorems: in every reachable state each reference counter equals the number of installed referrers; hence DELETE of a group/next-hop fails iff installed and referenced, every other DELETE succeeds, verdict depends on tables only. Tied to rib.go by differential histories comparing the real counters (hook) and verdicts; model-free oracle recounts referrers and probes deletes.",
             ref="DESIGN.md 4/C03", note=TB + " Counters read through the add-only hook VerifRefCounts."),
 "C17": dict(technique="Coq proof: iff-specifications of every chk helper over a model of chk.go + correspondence via vm_compute",
             text="Theorems for all result lists / Get responses / errors / wants / options: each helper passes iff the wanted item is present under the documented ignore rules; cached checker sound, complete under unique keys; no entry kind skipped. Model tied to chk.go by running the real helpers with a capturing testing.TB on generated inputs; model-free oracle searches the wanted item directly.",
             ref="DESIGN.md 4/C17", note=TB),
 "C18": dict(technique="Coq proof: last-call-wins / append specifications of the fluent builders and client id/election stamping over a model of fluent.go + correspondence via vm_compute",
             text="Theorems for all programs of builder and client calls: every emitted field is the argument of the last call that sets it (append semantics where the code appends), nothing else present; ids 1,2,3,...; op type; election stamp. Model tied to fluent.go by executing generated programs through the real API against a recording stub; aliasing clause checked on the implementation.",
             ref="DESIGN.md 4/C18", note=TB + " The aliasing clause (later builder calls never alter queued messages) has no counterpart in a pure model and is checked on the implementation only."),
 "C04": dict(technique="Coq proof: gate theorems over the server model for every RIB/state/request + regenerated checkElectionForModify proved equal to the model gate + correspondence via vm_compute",
             text="Theorems: a request changes the RIB only if one of its operations passes the gate (sender = primary, stamp = its last announcement = highest id, 128-bit); rejected operations are FAILED or end the RPC and leave everything untouched; frame conditions for every input. The gate function itself is regenerated from server.go each run and proved equal to the model's. Server model tied to /repo by differential multi-session scripts.",
             ref="DESIGN.md 4/C04", note=TB + " Each scripted message is atomic."),
 "C09": dict(technique="Coq proof: declarative status table proved equal to the server model's behaviour for every state/message + correspondence via vm_compute",
             text="Theorems: for every server state, live session and message, the RPC ends with exactly the code/reason of the declarative table, answers nothing, leaves RIB/election/other sessions unchanged and removes the session; parameters accepted only for SINGLE_PRIMARY+PRESERVE, first, once, consistent. Tied to /repo by differential scripts over the violation alphabet on up to three sessions.",
             ref="DESIGN.md 4/C09", note=TB + " Each scripted message is atomic."),
 "C02": dict(technique="Coq proof: invariants (closed, quiescent, held-set well-formedness) by induction over histories and over the cascade for every permutation order + correspondence via vm_compute",
             text="Theorems: an operation is installed only when resolvable; installed state is reference-closed under AddEntry/DeleteEntry/full Flush; after every call no held operation is installable (for every Go map order; fuel of the model proved sufficient); with forward references disabled nothing is ever held. Tied to rib.go by differential arrival-order permutations of dependency DAGs (oks sequence, held ids).",
             ref="DESIGN.md 4/C02", note=TB + " Map order = arbitrary permutation; partial flushes excluded from the closedness clause as in the property text."),
 "C06": dict(technique="Coq proof: answer accounting over whole histories (NoDup of all answers, answered-or-held, per-call accounting) for every map order + server batch/FIB theorems + correspondence via vm_compute",
             text="Theorems: over any history with distinct op ids no id is answered twice (never FAILED and programmed), every answered id was submitted, every accepted operation is answered or still held and held ones are not resolvable; k operations yield k responses; FIB_PROGRAMMED only if negotiated and right after RIB_PROGRAMMED. Known finding K1 (results not routed per session) is recorded; the foreign-result clause is partial. Tied to /repo by differential multi-session scripts with batches and hand-overs.",
             ref="DESIGN.md 4/C06", note=TB + " Distinct op ids per history; K1 in known_findings.json."),
 "C08": dict(technique="Coq proof: flush effect theorem over the RIB model under the reachable-state invariant + regenerated checkFlushRequest proved equal to the decision table + correspondence via vm_compute",
             text="Theorems: checkFlushRequest (regenerated from server.go each run) equals the declarative table for all 128-bit ids; a rejected Flush changes nothing; an authorised one answers OK, empties exactly the selected instances, leaves other instances, held operations and election state alone and preserves the counter invariant, for any contents incl. shared/missing/cyclic backup groups. Tied to /repo by differential scripts over the decision table and RIB shapes.",
             ref="DESIGN.md 4/C08", note=TB),
 "C13": dict(technique="Coq proof: accounting invariants over a sequential model of the client queues for all event sequences + correspondence via vm_compute",
             text="Theorems for all event sequences with distinct queued ids and all server behaviours: conservation (queued / pending / exactly one terminal result), result matches the queued op, AwaitConverged success iff nothing queued or pending and no error, RIB ack not terminal in FIB mode, protocol violations surface. Model tied to client/gribiclient.go by running the real client over bufconn against a scripted stub server.",
             ref="DESIGN.md 4/C13", note=TB + " Interleavings inside one event are C14's subject."),
 "C14": dict(technique="Coq proof: LTS of the client's goroutine protocol (App/Sender/Receiver/Waiter/Closer, modifyCh, awaiting RW-lock with writer preference) with invariant + decreasing measure + progress for all n, k, schedules; fault injection on the real client",
             text="Theorems (model of the goroutine protocol written in gribigo, parametric in burst size and fault index, all schedules): no deadlock, all runs terminate, terminal states clean (Q/Await/Close/Reset returned, no sender/receiver left, fresh after Reset), Await never reports success after a fault. PARTIAL: Go scheduler, sync.RWMutex and gRPC are modelled, not verified; the runtime half is fault injection at every message index on the real client with watchdogs and a goroutine census.",
             ref="DESIGN.md 4/C14", note=TB + " Partial: goroutine scheduling, RWMutex writer preference and gRPC stream semantics are assumptions of the LTS."),
}
NA = []
m = {"version": 1,
     "setup_cmd": "bin/setup",
     "hooks": {"guard": "verif", "enable": "go build -tags verif (files /repo/server/verif_hooks.go, /repo/rib/verif_hooks.go, /repo/client/verif_hooks.go; add-only, //go:build verif)",
               "baseline_off_cmd": "cd /repo && go test -mod=mod -vet=off -count=1 ./...",
               "source_commits": json.load(open(os.path.join(V, "tools/hook_commits.json"))), "add_only": True},
     "engines": [{"name": "coq", "path": "coq/", "serves_properties": sorted(CHECKS), "kind_free_text": "Coq 8.16.1 development (models, theorems, Properties/Cnn.v)"},
                 {"name": "vh", "path": "harness/", "serves_properties": sorted(CHECKS), "kind_free_text": "Go correspondence harness + model-free oracles; cases evaluated in Coq by vm_compute"}],
     "checks": [], "not_applicable": NA,
     "notes": "bin/check <id> --tier quick|thorough; see DESIGN.md. known_findings.json lists recorded findings and fixed defects."}
for pid in sorted(CHECKS):
    c = CHECKS[pid]
    m["checks"].append({"property_id": pid, "quick_cmd": "bin/check %s --tier quick" % pid, "thorough_cmd": "bin/check %s --tier thorough" % pid,
                        "evidence_file": "/verif/evidence/%s.json" % pid, "replay_cmd_template": "bin/replay {path}", "engine": "coq+vh",
                        "level_claimed": {"category": c.get("category", "proof"), "text": c["text"], "design_ref": c["ref"]},
                        "level_note": c["note"], "technique": c["technique"]})
json.dump(m, open(os.path.join(V, "MANIFEST.json"), "w"), indent=1)
