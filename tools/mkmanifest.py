#!/usr/bin/env python3
"""Writes /verif/MANIFEST.json from the table below (kept in one place so it stays valid)."""
import json, os
V = os.path.dirname(os.path.dirname(os.path.abspath(__file__)))
TB = "Coq 8.16.1 kernel + vm_compute (no native_compute); hand-written Gallina model tied to /repo by the correspondence harness (Go, build tag verif) and, where stated, by fragments regenerated from the Go source on every run (tools/gen_*); no axioms (Print Assumptions: closed under the global context)."
CHECKS = {
 "C05": dict(technique="Coq proof (theorems over the server election model + over isNewMaster regenerated from server.go) + model/implementation correspondence via vm_compute",
             text="Theorems for all histories/ids: regenerated isNewMaster = 128-bit order, reported id = running maximum, primary = latest not-lower announcer; model tied to /repo by differential runs over the boundary lattice and random multi-session scripts; model-free oracle recomputes the running maximum.",
             ref="DESIGN.md 4/C05", note=TB + " Each scripted message is atomic (interleavings of concurrent announcements: C11)."),
}
NA = []
m = {"version": 1,
     "setup_cmd": "bin/setup",
     "hooks": {"guard": "verif", "enable": "go build -tags verif (files /repo/server/verif_hooks.go, /repo/rib/verif_hooks.go, /repo/client/verif_hooks.go; add-only, //go:build verif)",
               "baseline_off_cmd": "cd /repo && go test -mod=mod -vet=off -count=1 ./...",
               "source_commits": json.load(open(os.path.join(V, "tools/hook_commits.json"))), "add_only": True},
     "engines": [{"name": "coq", "path": "coq/", "serves_properties": sorted(CHECKS), "kind_free_text": "Coq 8.16.1 development (models, theorems, Properties/Cnn.v)"},
                 {"name": "vh", "path": "harness/", "serves_properties": sorted(CHECKS), "kind_free_text": "Go correspondence harness + model-free oracles; cases evaluated in Coq by vm_compute"}],
     "checks": [], "not_applicable": NA,
     "notes": "bin/check <id> --tier quick|thorough; see DESIGN.md. known_findings.json lists recorded findings and fixed defects."}
for pid in sorted(CHECKS):
    c = CHECKS[pid]
    m["checks"].append({"property_id": pid, "quick_cmd": "bin/check %s --tier quick" % pid, "thorough_cmd": "bin/check %s --tier thorough" % pid,
                        "evidence_file": "/verif/evidence/%s.json" % pid, "replay_cmd_template": "bin/replay {path}", "engine": "coq+vh",
                        "level_claimed": {"category": c.get("category", "proof"), "text": c["text"], "design_ref": c["ref"]},
                        "level_note": c["note"], "technique": c["technique"]})
json.dump(m, open(os.path.join(V, "MANIFEST.json"), "w"), indent=1)
