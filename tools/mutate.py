#!/usr/bin/env python3
"""tools/mutate.py — a mutation campaign against the checks (a measure of their reach, not a check).

  mutate.py gen  <profile.txt> <out.json> [n] [seed]   choose n single-line mutants on statements the harness covers
  mutate.py run  <mutants.json> <worker> <workers> <results.jsonl>

For each mutant: a scratch git worktree of /repo gets the edit; `go build ./...`; the packages' own tests
(rib, server, client, chk, fluent, reconciler, compliance as relevant) must still pass — otherwise the mutant is
"killed by the existing suite" and of no interest; then the harness sub-commands of the properties anchored in
that file run against the worktree (a copy of /verif/harness whose go.mod points at it): oracle verdicts first,
then the Coq evaluation of the emitted cases.  Survivors are listed for inspection: equivalent mutants, or gaps.
Nothing is written under /repo or /verif except the results file given on the command line."""
import json, os, random, re, shutil, subprocess, sys, time

ENV = dict(os.environ, GOFLAGS="-mod=mod", GOPROXY="off")
FILES = {
    "rib/rib.go": [("vh", "c01", 300), ("vh", "c02", 300), ("vh", "c03", 200), ("vh", "c12", 145), ("vh-c16", "c16", 600), ("vh-c07", "c07", 160), ("vh-c15", "c15", 400), ("vh", "c08", 250), ("vh", "c10", 40)],
    "server/server.go": [("vh", "c04", 250), ("vh", "c05", 150), ("vh", "c06", 250), ("vh", "c08", 250), ("vh", "c09", 300), ("vh", "c10", 40), ("vh", "c12", 145), ("vh", "c01srv", 60), ("vh-c07", "c07", 160)],
    "client/gribiclient.go": [("vh-c13", "c13", 400), ("vh-c13", "c13race", 8), ("vh-c13", "c13ack", 20), ("vh-c14", "c14", 25)],
    "chk/chk.go": [("vh-c17", "c17", 3000)],
    "fluent/fluent.go": [("vh-c18", "c18", 1000)],
    "rib/reconciler/reconcile.go": [("vh-c15", "c15", 400)],
}
TESTS = {
    "rib/rib.go": "./rib ./rib/reconciler ./server ./compliance",
    "server/server.go": "./server ./compliance",
    "client/gribiclient.go": "./client ./compliance",
    "chk/chk.go": "./chk ./compliance",
    "fluent/fluent.go": "./fluent ./compliance",
    "rib/reconciler/reconcile.go": "./rib/reconciler",
}
OPS = [
    (r" == ", " != "), (r" != ", " == "), (r" < ", " <= "), (r" <= ", " < "), (r" > ", " >= "), (r" >= ", " > "),
    (r" && ", " || "), (r" \|\| ", " && "), (r"\bif !(\w)", r"if \1"), (r"\breturn true\b", "return false"), (r"\breturn false\b", "return true"),
    (r"\+ 1\b", "- 1"), (r"- 1\b", "+ 1"), (r"\bcontinue\b", "break"),
]
DELETE_OK = re.compile(r"^\s*(\w[\w.\[\]]*\.(inc|dec|rm|add|delete|set|store|clear)\w*\(.*\)|delete\(.*\)|\w[\w.\[\]]* = .*|\w[\w.\[\]]*\+\+|\w[\w.\[\]]*--)\s*$")


def sh(cmd, cwd, timeout):
    try:
        p = subprocess.run(cmd, cwd=cwd, shell=True, env=ENV, stdout=subprocess.PIPE, stderr=subprocess.STDOUT, text=True, timeout=timeout)
        return p.returncode, p.stdout
    except subprocess.TimeoutExpired:
        return 124, "timeout"


def gen(profile, out, n, seed):
    covered = {}
    for l in open(profile):
        m = re.match(r"github.com/openconfig/gribigo/(\S+):(\d+)\.\d+,(\d+)\.\d+ \d+ (\d+)", l)
        if m and int(m.group(4)) > 0 and m.group(1) in FILES:
            for k in range(int(m.group(2)), int(m.group(3)) + 1):
                covered.setdefault(m.group(1), set()).add(k)
    rnd = random.Random(seed)
    cands = []
    for f, lines in covered.items():
        src = open(os.path.join("/repo", f)).read().split("\n")
        for k in sorted(lines):
            line = src[k - 1]
            s = line.strip()
            if not s or s.startswith("//") or "log." in s or "fmt.Errorf" in s or "status." in s or "Errorf" in s:
                continue
            for i, (a, b) in enumerate(OPS):
                if re.search(a, line):
                    new = re.sub(a, b, line, count=1)
                    if new != line:
                        cands.append({"file": f, "line": k, "op": "%s -> %s" % (a, b), "before": line, "after": new})
            if DELETE_OK.match(line) and ":=" not in line:
                cands.append({"file": f, "line": k, "op": "delete statement", "before": line, "after": re.match(r"^\s*", line).group(0) + "// mutant: statement removed"})
    rnd.shuffle(cands)
    # spread over files
    per = {}
    chosen = []
    quota = {"rib/rib.go": 0.38, "server/server.go": 0.27, "client/gribiclient.go": 0.15, "chk/chk.go": 0.07, "fluent/fluent.go": 0.07, "rib/reconciler/reconcile.go": 0.06}
    for c in cands:
        if per.get(c["file"], 0) < quota[c["file"]] * n and not any(x["file"] == c["file"] and x["line"] == c["line"] for x in chosen):
            per[c["file"]] = per.get(c["file"], 0) + 1
            chosen.append(c)
    for i, c in enumerate(chosen):
        c["id"] = i
    json.dump(chosen, open(out, "w"), indent=1)
    print(len(cands), "candidates;", len(chosen), "chosen;", per)


def run(mfile, worker, workers, results):
    muts = [m for m in json.load(open(mfile)) if m["id"] % workers == worker]
    done = set()
    if os.path.exists(results):
        for l in open(results):
            try:
                done.add(json.loads(l)["id"])
            except Exception:
                pass
    wt, hz, out = "/tmp/mut-wt-%d" % worker, "/tmp/mut-h-%d" % worker, "/tmp/mut-out-%d" % worker
    for m in muts:
        if m["id"] in done:
            continue
        t0 = time.time()
        rec = dict(m)
        sh("git -C /repo worktree remove --force %s" % wt, "/", 60)
        shutil.rmtree(wt, ignore_errors=True)
        rc, o = sh("git -C /repo worktree add -q --detach %s HEAD" % wt, "/", 120)
        if rc:
            rec["verdict"] = "setup-failed"
        else:
            p = os.path.join(wt, m["file"])
            src = open(p).read().split("\n")
            assert src[m["line"] - 1] == m["before"], "source moved"
            src[m["line"] - 1] = m["after"]
            open(p, "w").write("\n".join(src))
            rc, o = sh("go build ./... && go vet -tags verif ./rib ./server >/dev/null 2>&1; go build -tags verif ./...", wt, 600)
            if rc:
                rec["verdict"] = "does-not-compile"
            else:
                rc, o = sh("go test -vet=off -count=1 %s 2>&1 | tail -15" % TESTS[m["file"]], wt, 900)
                if rc or re.search(r"(?m)^(FAIL|panic)", o) or "--- FAIL" in o:
                    rec["verdict"] = "killed-by-existing-suite"
                else:
                    shutil.rmtree(hz, ignore_errors=True)
                    shutil.copytree("/verif/harness", hz)
                    gm = open(os.path.join(hz, "go.mod")).read().replace("=> /repo", "=> " + wt)
                    open(os.path.join(hz, "go.mod"), "w").write(gm)
                    rec["verdict"] = "SURVIVED"
                    built = {}
                    for vb, sub, n in FILES[m["file"]]:
                        if vb not in built:
                            rc, o = sh("go build -tags verif -o %s/%s ./cmd/%s" % (hz, vb, vb), hz, 900)
                            built[vb] = rc == 0
                            if rc:
                                rec["verdict"] = "killed: harness does not build (%s)" % vb
                                break
                        shutil.rmtree(out, ignore_errors=True)
                        os.makedirs(out)
                        rc, o = sh("%s/%s %s -seed 1 -n %d -out %s" % (hz, vb, sub, n, out), hz, 900)
                        if rc:
                            rec["verdict"] = "killed: %s crashed / failed (%s)" % (sub, o[-200:].replace("\n", " "))
                            break
                        rep = json.load(open(os.path.join(out, "impl.json")))
                        bad = (rep.get("violations") or []) + (rep.get("hangs") or [])
                        bad = [b for b in bad if "held-op-of-other-session" not in b["problem"]]
                        if bad:
                            rec["verdict"] = "killed by oracle of %s: %s" % (sub, bad[0]["problem"][:160].replace("\n", " "))
                            break
                        rc, o = sh("python3 -c \"import sys; sys.path.insert(0,'/verif'); from checks import lib; ev=lib.eval_cases('%s'); print('MISM', sum(len(v) for v in ev.values()))\"" % out, "/verif", 900)
                        mm = re.search(r"MISM (\d+)", o)
                        if not mm:
                            rec["verdict"] = "killed: cases of %s did not evaluate" % sub
                            break
                        if int(mm.group(1)) > 0:
                            rec["verdict"] = "killed by correspondence of %s (%s mismatches)" % (sub, mm.group(1))
                            break
        rec["seconds"] = round(time.time() - t0)
        open(results, "a").write(json.dumps(rec) + "\n")
        print(worker, m["id"], m["file"], m["line"], rec["verdict"][:90], flush=True)
    sh("git -C /repo worktree remove --force %s" % wt, "/", 60)
    shutil.rmtree(hz, ignore_errors=True)
    shutil.rmtree(out, ignore_errors=True)


if sys.argv[1] == "gen":
    gen(sys.argv[2], sys.argv[3], int(sys.argv[4]) if len(sys.argv) > 4 else 200, int(sys.argv[5]) if len(sys.argv) > 5 else 1)
else:
    run(sys.argv[2], int(sys.argv[3]), int(sys.argv[4]), sys.argv[5])
