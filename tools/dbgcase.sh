#!/bin/sh
# usage: dbgcase.sh <dir> <shard> <index> : where does the model differ from the recorded observables
d=$1; k=$2; i=$3
cd $d
grep -v "^Definition M\|^Print M" cases_$k.v > dbg_$k.v
cat >> dbg_$k.v <<EOT
Definition the_case := nth $i cases (mk_rcase false [] [] []).
Definition zip3 := combine (c_hist the_case) (combine (fst (rmodel the_case)) (c_obs the_case)).
Eval vm_compute in (filter (fun x => negb (robs_eqb (fst (snd x)) (snd (snd x)))) zip3).
Eval vm_compute in (state_eqb (snd (rmodel the_case)) (c_final the_case)).
EOT
coqc -Q /verif/coq/theories GV dbg_$k.v
